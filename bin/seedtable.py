#!/usr/bin/env python3
"""writes seeded/README.md from the meta.json files"""
import json, glob, os
rows = []
for f in sorted(glob.glob('/verif/seeded/*/meta.json')):
    m = json.load(open(f)); v = m.get('verification', {})
    rows.append((os.path.basename(os.path.dirname(f)), m.get('property'), (('[' + m['note'] + '] ' if m.get('note') else '') + (m.get('summary') or '')).replace('\n', ' ')[:(420 if m.get('note') else 230)], (m.get('needs') or '').replace('\n', ' ')[:200],
                 'yes' if all(v.get(k) for k in ('demo_passes_on_clean_tree', 'patch_applies', 'demo_fails_with_patch', 'suite_passes_with_patch')) else 'NO',
                 ', '.join(v.get('detected_by', [])) or '-'))
out = ["# Seeded changes (sensitivity test)", "",
       "Each directory holds `patch.diff` (a change to CloudyKit/jet that breaks the named property while compiling and passing the",
       "unedited suite), `demo_test.go` (fails with the change, passes without it) and `meta.json` (what it breaks, what it needs to",
       "manifest, how the demonstration is run, and the `verification` record written by `bin/seedtest`). The changes were written by",
       "sub-agents that saw only the property text and a scratch worktree. `bin/seedtest <dir>` re-validates a change in a scratch",
       "worktree (demo passes clean, patch applies, suite passes, demo fails) and runs the quick tier of the property's check against it.", "",
       "| change | property | what was changed | needs | valid | caught by (quick tier) |", "|---|---|---|---|---|---|"]
for r in rows:
    out.append("| %s | %s | %s | %s | %s | %s |" % tuple(x.replace('|', '\\|') for x in r))
open('/verif/seeded/README.md', 'w').write("\n".join(out) + "\n")
print(len(rows), "rows;", sum(1 for r in rows if r[5] != '-'), "caught")
