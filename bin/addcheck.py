#!/usr/bin/env python3
"""addcheck.py ID quick thorough  <<JSON {"technique":..,"text":..,"note":..,"assumptions":[..],"cfg":{...extra per-tier keys}}"""
import json, sys, re
pid, quick, thorough = sys.argv[1], int(sys.argv[2]), int(sys.argv[3])
spec = json.load(sys.stdin)
p = '/verif/bin/checkcfg.py'
s = open(p).read().rstrip()
assert s.endswith('}')
entry = '    %r: {\n        "quick": %r,\n        "thorough": %r,\n        "assumptions": %r,\n%s    },\n}\n' % (
    pid,
    dict({"checks": quick, "shards": 4, "timeout": 900}, **spec.get("quick", {})),
    dict({"checks": thorough, "shards": 14, "timeout": 3600, "shrinktime": "60s"}, **spec.get("thorough", {})),
    spec.get("assumptions", []),
    ''.join('        %r: %r,\n' % kv for kv in spec.get("top", {}).items()))
open(p, 'w').write(s[:-1] + entry)
p = '/verif/bin/mkmanifest.py'
s = open(p).read()
old = '}\nPENDING = {}'
new = ' %r: (%r,\n         %r,\n         %r,\n         %r),\n}\nPENDING = {}' % (pid, spec["technique"], spec["text"], spec["note"], "DESIGN.md section 5/" + pid)
assert old in s
open(p, 'w').write(s.replace(old, new, 1))
