# Per-property budgets. checks = total rapid cases over all shards.
CONFIG = {
    "C03": {
        "quick": {"checks": 40000, "shards": 4, "timeout": 600},
        "thorough": {"checks": 1000000, "shards": 14, "timeout": 3000, "shrinktime": "60s"},
        "assumptions": [
            "text segments never contain a left action/comment delimiter (construction + sanitising); delimiters are drawn so that neither opener is a prefix of the other and contain no '-', quotes, whitespace or alphanumerics",
        ],
    },
    "C20": {
        "quick": {"checks": 12000, "shards": 4, "timeout": 600},
        "thorough": {"checks": 600000, "shards": 14, "timeout": 3000, "shrinktime": "60s"},
        "assumptions": [
            "the independent traversal is a reflective walk over exported AST fields (embedded structs included); ListNode, BlockParameterList, the catch wrapper and the catch variable are containers (at most once), everything else must be visited exactly once",
            "the walk runs in a worker sub-process with a 64 MiB stack limit; worker death = crash, 20 s silence twice = hang",
        ],
    },
    "C02": {
        "quick": {"checks": 24000, "shards": 4, "timeout": 900,
                  "extra": [{"test": "TestC02Prefixes", "env": {"JETVERIF_PREFIX_SHARD": i, "JETVERIF_PREFIX_SHARDS": 2}} for i in range(2)]},
        "thorough": {"checks": 2000000, "shards": 12, "timeout": 6000, "shrinktime": "90s",
                     "extra": [{"test": "TestC02Prefixes", "env": {"JETVERIF_PREFIX_SHARD": i, "JETVERIF_PREFIX_SHARDS": 2}} for i in range(2)]},
        "assumptions": [
            "every case runs in a worker sub-process; worker death = crash; 20 s of silence, twice, = hang; a goroutine with a jet lexer frame still alive 100 ms after the call = leak",
            "referenced template sets include extends/import cycles (fixed defect; a cycle must be reported as an error)",
            "structural mistakes are built on top of a generated valid program so that the mistake itself is the only defect",
        ],
    },
    "C04": {
        "quick": {"checks": 60000, "shards": 4, "timeout": 600},
        "thorough": {"checks": 2000000, "shards": 14, "timeout": 3000, "shrinktime": "60s"},
        "assumptions": [
            "discarded (statement silent): one-sided operator spacing, / and % by zero, % with a fractional operand, == between an integer and a fractional float, unsigned wrap-around, results beyond 2^53, -0.0 printed or used as a condition, division of a number whose type the statement leaves open (result of % with a float operand), equality across string/number/bool",
            "!e is printed with a parenthesised or primary operand and bare only where a logical connective may stand, so both readings of its level agree",
            "probe logs are compared as multisets: only which operands are evaluated is asserted, not their order",
        ],
    },
    "C19": {
        "quick": {"checks": 6000, "shards": 4, "timeout": 600},
        "thorough": {"checks": 300000, "shards": 14, "timeout": 3000, "shrinktime": "60s"},
        "assumptions": [
            "embed.FS cannot be generated at run time: the embed loader is queried over one fixed embedded tree",
            "file-system trees live in per-case temporary directories inside the driver's work directory; backslashes in paths are not generated (only converted on Windows)",
        ],
    },
    "C15": {
        "quick": {"checks": 8000, "shards": 4, "timeout": 600},
        "thorough": {"checks": 400000, "shards": 14, "timeout": 3000, "shrinktime": "60s"},
        "assumptions": [
            "backslashes are not generated (converted only on Windows); Set.Parse-style empty names are not generated",
            "paths seen by Loader/Cache must be the independently computed canonical name (or the referrer's) plus a configured extension; for Cache.Get/Put the bare canonical name is accepted too (which key a cache entry is stored under is C16's business)",
        ],
    },
    "C16": {
        "quick": {"checks": 20000, "shards": 4, "timeout": 600},
        "thorough": {"checks": 1200000, "shards": 14, "timeout": 3000, "shrinktime": "60s"},
        "assumptions": [
            "a lookup is an expected hit only when the very same name was loaded successfully by GetTemplate before; templates pulled in indirectly (extends during a GetTemplate, include at run time) are 'maybe cached' and nothing is asserted about them until they are requested directly",
            "which key a cache entry is stored under is not asserted; names that are related through the extension list (/a and /a.html under .jet / .html.jet) are the listed finding c16-cached-later-extension and are not generated",
            "the loader wrapper injects faults deterministically (Open error, reader failing after one byte)",
        ],
    },
    'C01': {
        "quick": {'checks': 12000, 'shards': 4, 'timeout': 900},
        "thorough": {'checks': 600000, 'shards': 14, 'timeout': 3600, 'shrinktime': '60s'},
        "assumptions": ["Renderer values (writeJson, includeIfExists' hidden bool) are kept out of render sites", 'the custom escaper is chunk-homomorphic (byte-wise)', 'safeJs is compared against text/template.JSEscape'],
    },
    'C05': {
        "quick": {'checks': 10000, 'shards': 4, 'timeout': 900},
        "thorough": {'checks': 500000, 'shards': 14, 'timeout': 3600, 'shrinktime': '60s'},
        "assumptions": ['map iteration order is not promised: multi-entry map ranges are compared as multisets, and nothing consumable is ranged inside them', 'open channels are not generated (would block by design)', 'zero-valued structs/arrays and -0.0 are not used as conditions; nil elements of []interface{} are not printed'],
    },
    'C07': {
        "quick": {'checks': 10000, 'shards': 4, 'timeout': 900},
        "thorough": {'checks': 500000, 'shards': 14, 'timeout': 3600, 'shrinktime': '60s'},
        "assumptions": ["'=' on names that exist only as a global or built-in is excluded (statement silent)", "argument expressions of a yield never read one of the block's parameter names", "range in '=' form never uses '_' as a target"],
    },
    'C08': {
        "quick": {'checks': 8000, 'shards': 4, 'timeout': 900},
        "thorough": {'checks': 300000, 'shards': 14, 'timeout': 3600, 'shrinktime': '60s'},
        "assumptions": ["every block that uses 'yield content' has default content and is always yielded with content (what a contentless invocation renders inside another pending content is not specified)", 'all definitions of one block name share parameter names and give every parameter a default', 'one definition per block name and file'],
    },
    'C09': {
        "quick": {'checks': 8000, 'shards': 4, 'timeout': 900},
        "thorough": {'checks': 300000, 'shards': 14, 'timeout': 3600, 'shrinktime': '60s'},
        "assumptions": ['a range stops after an iteration that executed a return (pinned by the existing suite)', 'a return inside a template run by includeIfExists is the listed finding c09-return-through-includeifexists and is not generated'],
    },
    'C13': {
        "quick": {'checks': 10000, 'shards': 4, 'timeout': 900},
        "thorough": {'checks': 500000, 'shards': 14, 'timeout': 3600, 'shrinktime': '60s'},
        "assumptions": ['try bodies never assign variables declared outside the try (value rollback is unspecified)', 'the text of a caught engine error is never printed (only isset of the catch variable; the value of a panic with a string is printed)'],
    },
    'C12': {
        "quick": {'checks': 12000, 'shards': 4, 'timeout': 900},
        "thorough": {'checks': 500000, 'shards': 14, 'timeout': 3600, 'shrinktime': '60s'},
        "assumptions": ['errors raised inside built-in or user functions only need to be errors (no position check)', "for 'SafeWriter not last' the failing action itself may already have emitted the writer's bytes", 'message text is never compared, only the ("file":line) position'],
    },
    'C10': {
        "quick": {'checks': 1200, 'shards': 4, 'timeout': 900},
        "thorough": {'checks': 150000, 'shards': 14, 'timeout': 7200, 'shrinktime': '60s'},
        "assumptions": ['two runtime.GC() calls empty every sync.Pool (victim cache semantics)', 'with GOMAXPROCS(1) and GC off, Put followed by Get returns the same pooled object; histories where reuse was not observed still count but are not non-trivial'],
    },
    'C06': {
        "quick": {'checks': 20000, 'shards': 4, 'timeout': 900},
        "thorough": {'checks': 800000, 'shards': 14, 'timeout': 3600, 'shrinktime': '60s'},
        "assumptions": ['pointer-receiver methods are expected only on addressable values, as in Go', 'absent map keys are probed with index syntax only (.name on an absent key is left open by the statement)', 'the struct-field cache is process-global: cold-cache behaviour is exercised once per type per process'],
    },
    'C17': {
        "quick": {'checks': 20000, 'shards': 4, 'timeout': 900},
        "thorough": {'checks': 800000, 'shards': 14, 'timeout': 3600, 'shrinktime': '60s'},
        "assumptions": ['method values, call expressions and slice expressions are not used as isset arguments', 'piped form: the piped expression itself must evaluate without error'],
    },
    'C14': {
        "quick": {'checks': 20000, 'shards': 4, 'timeout': 900},
        "thorough": {'checks': 800000, 'shards': 14, 'timeout': 3600, 'shrinktime': '60s'},
        "assumptions": ['conversions whose Go meaning surprises (integer -> string) are not generated', 'dump is not checked (development aid, output unspecified)'],
    },
    'C18': {
        "quick": {'checks': 10000, 'shards': 4, 'timeout': 900},
        "thorough": {'checks': 400000, 'shards': 14, 'timeout': 3600, 'shrinktime': '60s'},
        "assumptions": ['Let is only called from bodies that already declared a variable', 'SetOrLet is not used on global or built-in names', 'LetGlobal is used with a non-nil VarMap'],
    },
    'C11': {
        "quick": {'checks': 400, 'shards': 4, 'timeout': 900},
        "thorough": {'checks': 30000, 'shards': 14, 'timeout': 7200, 'shrinktime': '60s'},
        "assumptions": ['interleavings are sampled, not enumerated', 'AddGlobal/loader edits concurrent with executions either touch unrelated keys/files or rewrite the identical value/content, so the serial expectation is well defined'],
        'race': True,
    },
}

# Thorough budgets, sized so that each check takes roughly 3-10 minutes on 16 cores
# (measured: the first thorough sweep took 8-310 s per check with a tenth of these counts).
THOROUGH = {'C01': 6000000, 'C02': 6000000, 'C03': 20000000, 'C04': 30000000, 'C05': 4000000, 'C06': 10000000, 'C07': 6000000,
            'C08': 3000000, 'C09': 4000000, 'C10': 150000, 'C11': 150000, 'C12': 6000000, 'C13': 5000000, 'C14': 10000000,
            'C15': 500000, 'C16': 10000000, 'C17': 8000000, 'C18': 5000000, 'C19': 1500000, 'C20': 4000000}
for _k, _v in THOROUGH.items():
    CONFIG[_k]["thorough"]["checks"] = _v
    CONFIG[_k]["thorough"]["timeout"] = 7200
    CONFIG[_k]["thorough"]["shards"] = 14

# Native, coverage-guided fuzzing stage of the thorough tier (after the rapid shards; all cores; bounded by
# executions, and by a wall-clock budget whose expiry is recorded as "inconclusive", never as a verdict).
# "FuzzCnn" mutates the generator's decision stream, "FuzzCnnSource" the template source itself.
FUZZ = {
    'C01': [('FuzzC01', 400000)], 'C02': [('FuzzC02Source', 3000000), ('FuzzC02', 400000)], 'C03': [('FuzzC03', 1500000)],
    'C04': [('FuzzC04', 2000000)], 'C05': [('FuzzC05', 400000)], 'C06': [('FuzzC06', 600000)], 'C07': [('FuzzC07', 400000)],
    'C08': [('FuzzC08', 300000)], 'C09': [('FuzzC09', 300000)], 'C12': [('FuzzC12', 500000)], 'C13': [('FuzzC13', 400000)],
    'C14': [('FuzzC14', 800000)], 'C16': [('FuzzC16', 800000)], 'C17': [('FuzzC17', 600000)], 'C18': [('FuzzC18', 400000)],
    'C20': [('FuzzC20Source', 2000000), ('FuzzC20', 300000)],
}
for _k, _v in FUZZ.items():
    CONFIG[_k]["thorough"]["fuzz"] = [{"target": t, "execs": n, "timeout": 1500, "workers": 14} for t, n in _v]

# Quick tier: a few tens of seconds per property on 8 of the 16 cores (every change); counts are cases.
QUICK = {'C01': 48000, 'C02': 100000, 'C03': 160000, 'C04': 240000, 'C05': 40000, 'C06': 80000, 'C07': 40000, 'C08': 32000,
         'C09': 32000, 'C10': 2000, 'C11': 1200, 'C12': 48000, 'C13': 40000, 'C14': 80000, 'C15': 24000, 'C16': 240000,
         'C17': 80000, 'C18': 40000, 'C19': 24000, 'C20': 32000}
for _k, _v in QUICK.items():
    CONFIG[_k]["quick"]["checks"] = _v
    CONFIG[_k]["quick"]["shards"] = 8
