# Per-property budgets. checks = total rapid cases over all shards.
CONFIG = {
    "C03": {
        "quick": {"checks": 40000, "shards": 4, "timeout": 600},
        "thorough": {"checks": 1000000, "shards": 14, "timeout": 3000, "shrinktime": "60s"},
        "assumptions": [
            "text segments never contain a left action/comment delimiter (construction + sanitising); delimiters are drawn so that neither opener is a prefix of the other and contain no '-', quotes, whitespace or alphanumerics",
        ],
    },
}
