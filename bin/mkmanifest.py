#!/usr/bin/env python3
"""Regenerates MANIFEST.json from the table below (one place to edit)."""
import json, os
import sys
ROOT = os.path.dirname(os.path.dirname(os.path.abspath(__file__)))
sys.path.insert(0, os.path.join(ROOT, "bin"))
from checkcfg import FUZZ  # noqa: E402

# id -> (technique, level text, level note, design ref)
CLAIMED = {
 "C03": ("property-based testing (rapid): generated segment sequences x delimiter configurations against a specification model of trimming/comments; shrunk replay files",
         "Exploration by generated search: tens of thousands (quick) to a million (thorough) segment sequences under fixed and random delimiter configurations, each compared byte-for-byte with an independent segment-level model. Finds adjacency bugs (trim marker x whitespace x comment x delimiter) that examples miss; does not prove absence.",
         "Trusts the in-memory loader and Set plumbing; text segments are sanitised so that they never contain a left delimiter; delimiters are drawn from a family without '-', quotes, whitespace or alphanumerics.",
         "DESIGN.md section 5/C03"),
 "C02": ("property-based testing + fuzz-style mutation (rapid): generated/mutated/truncated sources x delimiter configurations x referenced-template sets, each parsed in an isolated worker process; oracle = total-function contract (no crash, no hang, no leaked lexer goroutine, usable template xor error naming template and line, structural mistakes rejected)",
         "Exploration by generated search: five generators (mutated valid programs, token soup, delimiter-biased bytes, valid programs, built-to-be-wrong structural mistakes) plus every prefix of the 46 seed templates; each case runs in a sub-process so that lexer-goroutine panics, stack overflows and hangs are observations. Does not prove totality.",
         "Hang = 20 s silence twice on inputs < 8 KiB; goroutine leak judged 100 ms after the call; error line checked against 1..1+count(newline); worker protocol and process isolation are trusted.",
         "DESIGN.md section 5/C02"),
 "C20": ("property-based testing (rapid): full-grammar generated programs parsed by the engine; differential oracle = multiset of nodes handed to a descending visitor vs an independent reflective traversal of the exported AST, executed in an isolated worker",
         "Exploration by generated search over all node kinds the grammar produces (label histogram of node kinds in the evidence); every statement/expression node must be visited exactly once, containers at most once, no panic, termination. Does not prove completeness for grammar the generator does not reach.",
         "The reflective traversal follows exported fields (and embedded structs) of the AST; ListNode, BlockParameterList, the catch wrapper and the catch variable count as containers.",
         "DESIGN.md section 5/C20"),
 "C04": ("property-based testing (rapid): generated typed expression trees printed with minimal/redundant parentheses and both/neither spacing, compared with an independent typed reference evaluator; probe-function call logs for laziness",
         "Exploration by generated search over operator/kind/spacing combinations (label histogram: operator pairs and operand-kind pairs actually exercised); exact output equality with a reference evaluator written from the property statement.",
         "Shapes whose meaning the statement leaves open are discarded and counted (see assumptions in the evidence); values are small so that float arithmetic is exact.",
         "DESIGN.md section 5/C04"),
 "C19": ("property-based testing (rapid), model-based: generated Set/Delete/Exists/Open histories and generated file trees / loader stacks compared with a map model keyed by an independent path normaliser",
         "Exploration by generated search: in-memory loader histories under many spellings, every clean absolute path of generated trees for the OS/http/embed loaders, and multi stacks with overlapping contents and AddLoaders mid-history.",
         "The host file system behaves as POSIX; the embed loader is exercised on one fixed embedded tree.",
         "DESIGN.md section 5/C19"),
 "C15": ("property-based testing (rapid): generated name spellings x call paths x referrer depths x extension lists, observed through recording Loader/Cache wrappers; oracle = clean-absolute-path predicate + independently computed canonical name + metamorphic relation (two spellings of one template => identical request sequence) + outside-root marker files for the OS loader",
         "Exploration by generated search over spellings (./ ../ // trailing slash, absolute/relative) on every call path that takes a template name.",
         "The recording wrappers are transparent; canonical resolution is re-implemented independently (own normaliser).",
         "DESIGN.md section 5/C15"),
 "C16": ("property-based testing (rapid), model-based histories with fault injection: generated sequences of loader edits, injected loader faults, GetTemplate/Set.Parse/Execute under dev-mode x cache x extension-list configurations; oracle = must/may-remember model asserted on recorded Loader/Cache traces and template pointer identity",
         "Exploration by generated histories (2-20 steps, 4 names, 4 extension lists): hit identity and loader silence, failures not cached, development mode always reloading and never storing, Set.Parse storing nothing, extension probe order from cold.",
         "Faults are injected by a wrapping loader; 'maybe cached' templates carry no assertion until requested directly.",
         "DESIGN.md section 5/C16"),
 'C01': ('property-based testing (rapid), model-based: generated nesting paths with render sites over special-byte-rich values; oracle = independent MiniJet reference interpreter (escape exactly once with the Set escaper, SafeWriter bypass only in last position, literal text verbatim), exact byte equality',
         "Exploration by generated search: nesting depth 0-5 over ten construct kinds (plus extends), values of many kinds and sources, three escaper configurations, all documented SafeWriters and a custom one; HTML escaping is not idempotent, so 'escaped twice' and 'not escaped' both differ from the expectation.",
         'Trusts the reference interpreter (harness/mj) for the sub-language used; a Renderer that writes through Runtime.Write is generated at direct render sites (one that writes to Runtime.Writer would be the documented raw bypass and is not); custom escapers are byte-wise (the printer legitimately writes in 4096-byte chunks).',
         'DESIGN.md section 5/C01'),
 'C05': ('property-based testing (rapid), model-based: generated nestings of if/else-if/else and range over a zoo of rangeable and non-rangeable Go values; oracle = MiniJet reference interpreter (exact output; multi-entry map ranges compared as multisets of per-entry renderings)',
         'Exploration by generated search over ranger kind x variable form x :=/= x condition kind (label histogram in the evidence), nested ranges over the same collection, empty/nil variants with else branches, truthiness of loop bindings through every binding form.',
         'Trusts the reference interpreter; custom Ranger fixtures keep their own cursor and are driven by model and engine alike; zero-valued structs/arrays, -0.0 and nil interface elements are not used as conditions / printed.',
         'DESIGN.md section 5/C05'),
 'C07': ("property-based testing (rapid), model-based: generated programs mixing :=, =, multi-assignment, discard and probes at every nesting depth of if/range/block/yield-content/include/try, with shadowing across locals / Execute variables / globals / built-ins and the loop-variable capture idiom for every ranger kind; oracle = MiniJet reference interpreter with an explicit scope stack, plus the caller's VarMap after Execute",
         "Exploration by generated search: expected output or expected failure ('=' without a visible variable) from an independent interpreter; after Execute the caller's VarMap must have the same keys and the values the model predicts.",
         "Trusts the reference interpreter; '=' on names that exist only as global or built-in is not generated; yield arguments do not read parameter names.",
         'DESIGN.md section 5/C07'),
 'C08': ('property-based testing (rapid), model-based: generated template sets (extends chains, import lists, overlapping block names, parameters/defaults, yields with shuffled/omitted named arguments, contexts, content, nested and recursive yields); oracle = MiniJet reference interpreter (block table = extended chain overlaid by imports in order overlaid by own definitions; dynamic lookup; content closures)',
         'Exploration by generated search over set shapes (chain length x import count x winning level in the label histogram) with exact output equality against an independent interpreter.',
         "Trusts the reference interpreter. Shapes the statement leaves open are not generated: cycles, positional arguments, arguments reading a name bound by an earlier argument of the same yield, parameters without default that are omitted, a name defined twice in one file, 'yield content' in a block that can be invoked without content.",
         'DESIGN.md section 5/C08'),
 'C09': ("property-based testing (rapid), model-based: generated template sets in nested directories with include/exec/includeIfExists call sites (every name spelling, with/without context) at depth 0-3 inside range/block/try/include, callees that extend 0-2 levels, declare, rebind '.', define and yield blocks, assign caller variables and return at every position; oracle = MiniJet reference interpreter plus probes after every call site",
         'Exploration by generated search: exact output equality (include renders in place, exec emits nothing and yields the last returned value, includeIfExists existing/missing/unparsable), no leak of callee declarations or context, relative names resolved against the including file (include) or the root (exec, includeIfExists).',
         "Trusts the reference interpreter. Not generated: 'return' inside a block body (whether it counts is unspecified), 'return nil' after another return or inside a range.",
         'DESIGN.md section 5/C09'),
 'C13': ('property-based testing (rapid), model-based: generated try statements whose bodies nest range/if-let/block/yield-content/include/inner-try around one of ~30 failing actions (or none), with every catch form, placed at top level / in a block with content / in a range / in an include; oracle = MiniJet reference interpreter with transactional try, probes after the statement',
         "Exploration by generated search over failure class x nesting path x catch form x placement; exact output equality (none of a failed body's bytes, catch exactly once, identical rendering on success) and probes of '.', variables, isset of every name declared inside, yield content and following text.",
         "Trusts the reference interpreter. Assignments from inside a try body to variables declared outside are not generated (whether a failed body's assignments are rolled back is not specified).",
         'DESIGN.md section 5/C13'),
 'C12': ('property-based testing (rapid): generated template sets with exactly one failing action (about 120 kinds over every class the statement lists, single- and multi-line) at a generated file / line / nesting position; oracle = no panic + non-nil error + ("file":line) equal to the printer\'s ground truth for self-detected failures + writer content equal to the MiniJet reference interpreter\'s output up to the failing action',
         'Exploration by generated search over failure class x file role (executed, included, imported block, extended layout, overriding block) x preceding content (multi-line text and comments, trim markers, same-line actions) x nesting depth; a replay tier holds one regression case per fixed defect.',
         'Trusts the reference interpreter for the output prefix and the printer for line ground truth. Positions of errors raised inside called functions (exec of a missing template, len(1), ints(1), isset(), Panicf) are not checked; failing actions occupy a single line except the multi-line yield-with-content variant.',
         'DESIGN.md section 5/C12'),
 'C10': ('property-based testing (rapid), history-based differential: generated sequences of Execute calls (on either of two Sets over the same sources: default escaper / escaper off; working or failing destination) over a pool of ordinary / failing / probing / returning / publishing / map-building / relative-including templates on one goroutine; oracle = the same call on freshly emptied object pools (two forced GCs) versus inside the history with GOMAXPROCS(1) and GC off (pooled Runtime reuse observed by pointer), structural hash of every parsed Template before/after, MiniJet reference interpreter as second opinion',
         'Exploration by generated histories (2-15 calls, 3-8 templates): output byte equality and error nil-ness/position equality between fresh state and history position; evidence reports how many histories observed Runtime reuse and a failing execution followed by a probing one on the same Runtime.',
         'sync.Pool reuse is made deterministic with one P and the GC disabled for the duration of a history; not run under -race (race mode drops pooled items at random). Error texts are not compared (they may print addresses).',
         'DESIGN.md section 5/C10'),
 'C06': ('property-based testing (rapid): access paths generated against the shape of zoo values (structs with exported/unexported/promoted/shadowed fields, value and pointer methods, maps with string/int/named keys, slices, arrays, strings, multi-level pointers, interfaces, nils); oracle = independent direct reflect resolver (value identity by pointer / DeepEqual inside the template through a checking function), metamorphic .name vs ["name"] twin, scalar rendering, invalid step => error (no panic), absent key => nil',
         "Exploration by generated search over step kinds x spellings x bases (variable, '.', call result) x 6 zoo variants, with an optional invalid step at any depth; label histogram of step kinds and failure classes in the evidence.",
         'The zoo is a fixed family of hand-written Go types (types with methods cannot be created at run time). Not generated: pointer-receiver methods on unaddressable values, methods on nil pointers (C14 has one that tolerates nil), selectors ambiguous in Go, an absent map key as the LAST step in .name syntax (a further step after it is generated and must fail), anything after a slice expression (grammar).',
         'DESIGN.md section 5/C06'),
 'C17': ('property-based testing (rapid): isset over generated argument lists of access paths into zoo values (valid/invalid at any depth, nils of every kind, absent keys, zero values, variable and undefined indexes) in direct / prefix / piped form, and two-value map look-ups; oracle = independent existence evaluator (every step resolves and is non-nil) / key presence',
         "Exploration by generated search; Execute must return nil and render exactly the evaluator's true/false.",
         'Only the documented argument kinds are generated (identifier, field, index, chain); in piped form only expressions that evaluate without error on their own (they are evaluated before isset sees the value).',
         'DESIGN.md section 5/C17'),
 'C14': ('property-based testing (rapid), metamorphic + differential: abstract call chains printed in every equivalent surface form (plain nested calls, prefix colon, pipe, pipe with arguments, slots) over recording reflected functions / variadics / methods / jet.Func, compared with the directly applied chain (rendered bytes and call log); jet.Func vs reflected variadic twin; built-ins compared with the Go functions the docs name',
         'Exploration by generated search over callable kind x surface form x slot position x arity (label histogram in the evidence); each stage must run exactly once, left to right, and receive converted arguments.',
         "Values flowing through a chain are strings; numeric conversions are float literal -> int. Wrong counts, nil arguments, non-convertible arguments and misplaced SafeWriters (error, not panic) are exercised by C12's failing-action matrix.",
         'DESIGN.md section 5/C14'),
 'C18': ('property-based testing (rapid), twin/metamorphic + model-based: generated programs that drive the Runtime API through custom functions versus their syntax twins (engine vs engine) and versus the MiniJet reference interpreter with API mirror functions; Arguments accessors versus a reflected variadic function for plain / piped / slot shapes',
         'Exploration by generated search: Let/Set/SetOrLet/LetGlobal/Resolve/Context/YieldBlock at depth<=4 inside if/range/block/include interleaved with := and =; twins must render identical bytes or both fail; LetGlobal visibility judged by the model.',
         'Every body opens its scope with a template-level := before an API call is made (Let from a body without an open scope is excluded); YieldBlock is used with parameterless blocks; VarMap is non-nil.',
         'DESIGN.md section 5/C18'),
 'C11': ('property-based testing (rapid) of generated concurrent operation mixes under the Go race detector (-race, halt_on_error) plus a serial-equivalence oracle: every concurrent Execute must return exactly what the same call returned alone on a private identically built Set',
         'Exploration by generated schedules-by-proxy: 4-32 goroutines (on all, 2 or 4 Ps) with barrier start issuing GetTemplate/Parse/Execute/AddGlobal/LookupGlobal and in-memory loader edits over shared templates (first loads of the same name, struct-field cache population for a type created per case, pooled rangers, failing executions), each mix repeated 1-3 times; any race report kills the process with exit code 66 and is reported with the operation mix as replay.',
         'The race detector judges only the interleavings that actually happened; PBT supplies many operation mixes but does not own the Go scheduler, so a race that needs a specific preemption inside a narrow window may survive (stated limit). Globals and loader edits touch only keys/files the compared templates do not depend on, or rewrite identical values.',
         'DESIGN.md section 5/C11'),
}
PENDING = {}

def main():
    props = [json.loads(l) for l in open(os.path.join(ROOT, "properties.jsonl"))]
    checks, na = [], []
    for p in props:
        pid = p["id"]
        if pid in CLAIMED:
            tech, text, note, ref = CLAIMED[pid]
            if pid in FUZZ:
                tech += "; thorough tier additionally: Go native coverage-guided fuzzing (" + ", ".join(t for t, _ in FUZZ[pid]) + ") over the same generator decisions / the template source, same oracle"
            checks.append({
                "property_id": pid,
                "quick_cmd": "bin/check %s quick" % pid,
                "thorough_cmd": "bin/check %s thorough" % pid,
                "evidence_file": "/verif/evidence/%s.json" % pid,
                "replay_cmd_template": "bin/check %s replay {path}" % pid,
                "engine": "jetverif",
                "level_claimed": {"category": "exploration", "text": text, "design_ref": ref},
                "level_note": note,
                "technique": tech,
            })
        else:
            na.append({"property_id": pid, "reason": PENDING.get(pid, "check not built yet (work in progress in this session; the design for it is in DESIGN.md section 5)")})
    m = {
        "version": 1,
        "setup_cmd": "bin/setup",
        "hooks": {
            "guard": "verif",
            "enable": "go test -tags verif (no hook source exists: every observation point is reachable through the public API, so the tag guards nothing)",
            "baseline_off_cmd": "cd /repo && go test -mod=mod -vet=off -count=1 ./...",
            "source_commits": [],
            "add_only": True,
        },
        "engines": [{"name": "jetverif", "path": "/verif/harness", "serves_properties": sorted(CLAIMED),
                     "kind_free_text": "Go module: rapid (pgregory.net/rapid v1.3.0) generators + explicit oracles per property, driven by bin/check (python3) in parallel shards, in the thorough tier followed by Go's native fuzzer on the same generators/oracles; replay files are JSON cases re-executed without rapid"}],
        "checks": checks,
        "not_applicable": na,
        "notes": "exit 0 = held; exit 1 + VIOLATION line = violation with shrunk replay file; exit 2 = infrastructure trouble (never a verdict). KNOWN_FINDINGS.txt lists fixed and unfixed genuine defects.",
    }
    with open(os.path.join(ROOT, "MANIFEST.json"), "w") as f:
        json.dump(m, f, indent=1)
        f.write("\n")

if __name__ == "__main__":
    main()
