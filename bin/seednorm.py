#!/usr/bin/env python3
"""normalise meta.json of a seeded change: demo_place = file in the package directory, demo_cmd = run only the demo"""
import json, re, sys, os, shlex
for d in sys.argv[1:]:
    f = os.path.join(d, "meta.json")
    m = json.load(open(f))
    cmd = m.get("orig_demo_cmd", m.get("demo_cmd", ""))
    seg = next((s for s in re.split(r"&&|;", cmd) if "go test" in s), cmd)
    try:
        toks = shlex.split(seg)
    except ValueError:
        toks = seg.split()
    pat, pkg, race = "Test", ".", ""
    i = 0
    while i < len(toks):
        t = toks[i]
        if t == "-run" and i + 1 < len(toks):
            pat = toks[i + 1]
            i += 2
            continue
        if t.startswith("-run="):
            pat = t[5:]
        elif t == "-race":
            race = " -race"
        elif t == "." or (t.startswith("./") and not t.endswith(".go")):
            pkg = t.rstrip("/") or "."
        i += 1
    m["orig_demo_place"], m["orig_demo_cmd"] = m.get("orig_demo_place", m.get("demo_place")), cmd
    name = "seeded_%s_demo_test.go" % os.path.basename(d.rstrip("/")).replace("-", "_").lower()
    m["demo_place"] = name if pkg == "." else os.path.join(pkg[2:], name)
    m["demo_cmd"] = "go test%s -vet=off -count=1 -run '%s' %s" % (race, pat, pkg)
    json.dump(m, open(f, "w"), indent=1)
    print(d, "->", m["demo_place"], "|", m["demo_cmd"])
