#!/usr/bin/env python3
"""normalise meta.json of a seeded change: demo_place = file in the module root, demo_cmd = run only the demo"""
import json, re, sys, os
for d in sys.argv[1:]:
    f = os.path.join(d, "meta.json")
    m = json.load(open(f))
    cmd = m.get("demo_cmd", "")
    mm = re.search(r"-run[ =]+'([^']+)'|-run[ =]+\"([^\"]+)\"|-run[ =]+(\S+)", cmd)
    pat = next((g for g in (mm.groups() if mm else []) if g), "Test")
    race = " -race" if "-race" in cmd else ""
    pkg = "."
    mp = re.search(r"\s(\./\S+|\.)\s*$", cmd.strip())
    if mp:
        pkg = mp.group(1)
    m["orig_demo_place"], m["orig_demo_cmd"] = m.get("orig_demo_place", m.get("demo_place")), m.get("orig_demo_cmd", cmd)
    name = "seeded_%s_demo_test.go" % os.path.basename(d.rstrip("/")).replace("-", "_").lower()
    m["demo_place"] = name if pkg == "." else os.path.join(pkg, name)
    m["demo_cmd"] = "go test%s -vet=off -count=1 -run '%s' %s" % (race, pat, pkg)
    json.dump(m, open(f, "w"), indent=1)
    print(d, "->", m["demo_place"], "|", m["demo_cmd"])
