package checks

// C19 — bundled loaders honour the Loader contract and their path semantics.
//
// (a) InMemLoader: history of Set/Delete under arbitrary spellings, queried
//     under other spellings; model = map from normalised path to content.
// (b) OS / http / embed file-system loaders: generated tree, every clean
//     absolute path of the universe is queried; Exists <=> regular file,
//     Exists => Open reads exactly the stored bytes.
// (c) multi: stacks of the above with overlapping contents, AddLoaders
//     mid-history; answer = first loader, in order, that has the path.

import (
	"embed"
	"fmt"
	"io"
	"net/http"
	"os"
	"path/filepath"
	"sort"
	"strings"
	"testing"

	"jetverif/core"

	"github.com/CloudyKit/jet/v6"
	"jetverif/checks/embedroot"

	"github.com/CloudyKit/jet/v6/loaders/embedfs"
	"github.com/CloudyKit/jet/v6/loaders/httpfs"
	"github.com/CloudyKit/jet/v6/loaders/multi"
	"pgregory.net/rapid"
)

//go:embed testdata/embedtree
var c19Embedded embed.FS

var c19EmbedModel = map[string]string{
	"/root.jet":               "root template {{ 1 }}",
	"/sub/a.jet":              "sub a",
	"/sub/empty.jet":          "",
	"/sub/deep/d.jet.html":    "deep <b>",
	"/sub/deep/sub":           "same name as dir content",
	"/emptyfile_dir/only.jet": "x",
}

type c19Op struct {
	Op   string `json:"op"` // set | delete | exists | open | add (multi: add next layer)
	Path string `json:"path,omitempty"`
	Data string `json:"data,omitempty"`
}

// c19Link is a symbolic link below a file-system root: to a regular file (a template), to a directory (not one) or to nothing.
type c19Link struct {
	Path   string `json:"path"`
	Target string `json:"target"` // absolute within the tree; "" = dangling
}

type c19Layer struct {
	Links []c19Link         `json:"links,omitempty"`
	Root  int               `json:"root,omitempty"` // how the loader's root directory is spelt (os, embed)
	Kind  string            `json:"kind"`           // inmem | os | http | embed
	Files map[string]string `json:"files,omitempty"`
	Dirs  []string          `json:"dirs,omitempty"` // extra (possibly empty) directories
}

type c19Case struct {
	Kind    string     `json:"kind"` // inmem | fs | multi
	Ops     []c19Op    `json:"ops,omitempty"`
	Layers  []c19Layer `json:"layers,omitempty"`
	Initial int        `json:"initial,omitempty"` // multi: loaders passed to NewLoader; the rest arrive through AddLoaders
	Queries []string   `json:"queries,omitempty"`
}

// normPath is the model's own normaliser (not path.Clean).
func normPath(p string) string {
	var st []string
	for _, seg := range strings.Split(p, "/") {
		switch seg {
		case "", ".":
		case "..":
			if len(st) > 0 {
				st = st[:len(st)-1]
			}
		default:
			st = append(st, seg)
		}
	}
	return "/" + strings.Join(st, "/")
}

var c19Segs = []string{"a", "b", "t.jet", "sub", ".", "..", "", "a", "b"}

func genSpelling(t *rapid.T, label string) string {
	n := rapid.IntRange(1, 4).Draw(t, label+"N")
	var parts []string
	for i := 0; i < n; i++ {
		parts = append(parts, c19Segs[rapid.IntRange(0, len(c19Segs)-1).Draw(t, label)])
	}
	s := strings.Join(parts, "/")
	switch rapid.IntRange(0, 3).Draw(t, label+"Lead") {
	case 0:
	case 1:
		s = "./" + s
	default:
		s = "/" + s
	}
	if rapid.IntRange(0, 4).Draw(t, label+"Trail") == 0 {
		s += "/"
	}
	return s
}

// (names beginning with a dot are ordinary names)
// (names with the marker ¤ stand for names with bytes that are not UTF-8 - legal file names - which a case
// written out as JSON could not carry: ¤e9 is the byte 0xe9; c19Real puts the bytes in)
var c19Names = []string{"a", "b", "c.jet", "d", ".a", ".c.jet", "..d", "caf¤e9.jet", "men¤fc"}

var c19Marker = strings.NewReplacer("¤e9", "\xe9", "¤fc", "\xfc")

func c19Real(c c19Case) c19Case {
	r := c19Marker.Replace
	out := c19Case{Kind: c.Kind, Initial: c.Initial}
	for _, o := range c.Ops {
		out.Ops = append(out.Ops, c19Op{Op: o.Op, Path: r(o.Path), Data: o.Data})
	}
	for _, q := range c.Queries {
		out.Queries = append(out.Queries, r(q))
	}
	for _, l := range c.Layers {
		n := c19Layer{Root: l.Root, Kind: l.Kind}
		if l.Files != nil {
			n.Files = map[string]string{}
			for p, d := range l.Files {
				n.Files[r(p)] = d
			}
		}
		for _, d := range l.Dirs {
			n.Dirs = append(n.Dirs, r(d))
		}
		for _, ln := range l.Links {
			n.Links = append(n.Links, c19Link{Path: r(ln.Path), Target: r(ln.Target)})
		}
		out.Layers = append(out.Layers, n)
	}
	return out
}

// (names that are not UTF-8 only where the loader's own code decides: since Go 1.23 http.Dir refuses such names itself)
func genTree(t *rapid.T, label string, rawNames bool) (files map[string]string, dirs []string) {
	c19Names := c19Names
	if !rawNames {
		c19Names = c19Names[:7]
	}
	files = map[string]string{}
	n := rapid.IntRange(0, 6).Draw(t, label+"Files")
	for i := 0; i < n; i++ {
		depth := rapid.IntRange(1, 3).Draw(t, label+"Depth")
		var parts []string
		for j := 0; j < depth; j++ {
			parts = append(parts, c19Names[rapid.IntRange(0, len(c19Names)-1).Draw(t, label+"Name")])
		}
		p := "/" + strings.Join(parts, "/")
		files[p] = rapid.SampledFrom([]string{"", "x", label + ":" + p, "<b>{{ 1 }}</b>\n"}).Draw(t, label+"Content")
	}
	// a path cannot be both file and directory: files win over deeper entries
	for p := range files {
		for q := range files {
			if q != p && strings.HasPrefix(q, p+"/") {
				delete(files, q)
			}
		}
	}
	nd := rapid.IntRange(0, 2).Draw(t, label+"Dirs")
	for i := 0; i < nd; i++ {
		d := "/" + c19Names[rapid.IntRange(0, len(c19Names)-1).Draw(t, label+"DirName")]
		if rapid.Bool().Draw(t, label+"DirDeep") {
			d += "/" + c19Names[rapid.IntRange(0, len(c19Names)-1).Draw(t, label+"DirName2")]
		}
		ok := true
		for p := range files {
			if p == d || strings.HasPrefix(d, p+"/") {
				ok = false
			}
		}
		if ok {
			dirs = append(dirs, d)
		}
	}
	return
}

func genLayer(t *rapid.T, label string, kinds []string) c19Layer {
	k := rapid.SampledFrom(kinds).Draw(t, label+"Kind")
	l := c19Layer{Kind: k, Root: rapid.IntRange(0, 6).Draw(t, label+"Root")}
	if k != "embed" {
		l.Files, l.Dirs = genTree(t, label, k != "http")
	}
	if k == "os" || k == "http" {
		var files []string
		for p := range l.Files {
			files = append(files, p)
		}
		sort.Strings(files)
		for n := rapid.IntRange(0, 2).Draw(t, label+"Links"); n > 0; n-- {
			ln := c19Link{Path: "/" + rapid.SampledFrom([]string{"lnk1", "lnk2.jet", "a_link"}).Draw(t, label+"LinkName")}
			switch rapid.IntRange(0, 2).Draw(t, label+"LinkKind") {
			case 0:
				if len(files) > 0 {
					ln.Target = files[rapid.IntRange(0, len(files)-1).Draw(t, label+"LinkFile")]
				}
			case 1:
				if len(l.Dirs) > 0 {
					ln.Target = l.Dirs[0]
				} else if len(files) > 0 && strings.Count(files[0], "/") > 1 {
					ln.Target = filepath.ToSlash(filepath.Dir(files[0]))
				}
			}
			if _, clash := l.Files[ln.Path]; clash {
				continue
			}
			dup := false
			for _, o := range l.Links {
				if o.Path == ln.Path {
					dup = true
				}
			}
			for _, d := range l.Dirs {
				if d == ln.Path || strings.HasPrefix(d, ln.Path+"/") {
					dup = true
				}
			}
			for p := range l.Files {
				if strings.HasPrefix(p, ln.Path+"/") {
					dup = true
				}
			}
			if !dup {
				l.Links = append(l.Links, ln)
			}
		}
	}
	return l
}

// universe: every node of every layer, missing siblings, paths below files, the root.
func universe(layers []c19Layer) []string {
	set := map[string]bool{"/": true, "/zz": true}
	add := func(p string) {
		for p != "/" && p != "." && p != "" {
			set[p] = true
			set[p+"/zz"] = true
			p = filepath.ToSlash(filepath.Dir(p))
		}
	}
	for _, l := range layers {
		files := l.Files
		if l.Kind == "embed" {
			files = c19EmbedModel
			if l.Root%7 >= 5 {
				files = embedroot.Model
			}
		}
		for p := range files {
			add(p)
		}
		for _, d := range l.Dirs {
			add(d)
		}
		for _, ln := range l.Links {
			add(ln.Path)
		}
	}
	var out []string
	for p := range set {
		out = append(out, p)
	}
	sort.Strings(out)
	return out
}

func genC19(t *rapid.T) c19Case {
	switch rapid.IntRange(0, 2).Draw(t, "kind") {
	case 0:
		c := c19Case{Kind: "inmem"}
		n := rapid.IntRange(1, 12).Draw(t, "nops")
		for i := 0; i < n; i++ {
			op := rapid.SampledFrom([]string{"set", "set", "delete", "exists", "open", "open", "open-then-set"}).Draw(t, "op")
			o := c19Op{Op: op, Path: genSpelling(t, "p")}
			if op == "set" || op == "open-then-set" {
				o.Data = rapid.SampledFrom([]string{"", "A", "B", "content " + fmt.Sprint(i), "a much longer content than the others " + fmt.Sprint(i)}).Draw(t, "data")
			}
			c.Ops = append(c.Ops, o)
		}
		return c
	case 1:
		c := c19Case{Kind: "fs"}
		c.Layers = []c19Layer{genLayer(t, "fs", []string{"os", "http", "os", "http", "embed"})}
		c.Queries = universe(c.Layers)
		return c
	default:
		c := c19Case{Kind: "multi"}
		n := rapid.IntRange(1, 4).Draw(t, "nlayers")
		for i := 0; i < n; i++ {
			c.Layers = append(c.Layers, genLayer(t, fmt.Sprintf("l%d", i), []string{"inmem", "os", "http", "inmem", "os", "embed", "table", "table"}))
		}
		c.Initial = rapid.IntRange(0, n).Draw(t, "initial")
		c.Queries = universe(c.Layers)
		return c
	}
}

func readAll(l jet.Loader, p string) (string, error) {
	rc, err := l.Open(p)
	if err != nil {
		return "", err
	}
	defer rc.Close()
	b, err := io.ReadAll(rc)
	return string(b), err
}

// buildLayer materialises a layer; cleanup removes temp dirs.
// chdir: set to the directory the process has to work in for an http.Dir("") layer (at most one per case).
func buildLayer(l c19Layer, tmpRoot string, idx int, chdir *string) (jet.Loader, map[string]string, error) {
	switch l.Kind {
	case "table":
		// an application's own Loader whose type is a map (not comparable): a Loader like any other for a stack
		tl := tableLoader{}
		for p, c := range l.Files {
			tl[p] = c
		}
		return tl, l.Files, nil
	case "inmem":
		m := jet.NewInMemLoader()
		for p, c := range l.Files {
			m.Set(p, c)
		}
		return m, l.Files, nil
	case "embed":
		if l.Root%7 >= 5 {
			// the file system of a package that embeds its own directory: the root is ".", names at the top
			// level may begin with a dot
			return embedfs.NewLoader([]string{".", "./"}[l.Root%7-5], embedroot.FS), embedroot.Model, nil
		}
		root := []string{"testdata/embedtree", "testdata/embedtree/", "./testdata/embedtree", "testdata/./embedtree", "testdata/x/../embedtree"}[l.Root%7]
		return embedfs.NewLoader(root, c19Embedded), c19EmbedModel, nil
	}
	root := filepath.Join(tmpRoot, fmt.Sprintf("layer%d", idx))
	if err := os.MkdirAll(root, 0o755); err != nil {
		return nil, nil, err
	}
	for _, d := range l.Dirs {
		if err := os.MkdirAll(filepath.Join(root, filepath.FromSlash(d)), 0o755); err != nil {
			return nil, nil, err
		}
	}
	for p, c := range l.Files {
		fp := filepath.Join(root, filepath.FromSlash(p))
		if err := os.MkdirAll(filepath.Dir(fp), 0o755); err != nil {
			return nil, nil, err
		}
		if err := os.WriteFile(fp, []byte(c), 0o644); err != nil {
			return nil, nil, err
		}
	}
	// symbolic links: the model follows them like Open does - a link to a regular file is that template,
	// a link to a directory or to nothing is not a template
	model := map[string]string{}
	for p, c := range l.Files {
		model[p] = c
	}
	for _, ln := range l.Links {
		target := filepath.Join(root, filepath.FromSlash(ln.Target))
		if ln.Target == "" {
			target = filepath.Join(root, "no-such-target")
		}
		if err := os.Symlink(target, filepath.Join(root, filepath.FromSlash(ln.Path))); err != nil {
			return nil, nil, err
		}
		if c, ok := l.Files[ln.Target]; ok {
			model[ln.Path] = c
		}
	}
	if l.Kind == "os" {
		spelt := []string{root, root + "/", filepath.Dir(root) + "/./" + filepath.Base(root), root + "/sub/..", root + "//", ".", "./"}[l.Root%7]
		if l.Root%7 >= 5 {
			// the working directory as root
			if *chdir != "" {
				spelt = root
			} else {
				*chdir = root
			}
		}
		return jet.NewOSFileSystemLoader(spelt), model, nil
	}
	// how the http.Dir is spelt; the empty Dir means the working directory
	dir := []string{root, root + "/", root + "/sub/..", ""}[l.Root%4]
	if dir == "" {
		if *chdir != "" {
			dir = root
		} else {
			*chdir = root
		}
	}
	hl, err := httpfs.NewLoader(http.Dir(dir))
	return hl, model, err
}

type tableLoader map[string]string

func (t tableLoader) Exists(p string) bool { _, ok := t[p]; return ok }
func (t tableLoader) Open(p string) (io.ReadCloser, error) {
	c, ok := t[p]
	if !ok {
		return nil, os.ErrNotExist
	}
	return io.NopCloser(strings.NewReader(c)), nil
}

func judgeC19(c c19Case) (v core.Verdict) {
	c = c19Real(c)
	v.Label("kind:" + c.Kind)
	if c.Kind == "inmem" {
		// the history runs on a goroutine of its own: a loader that stops answering (a lock kept on some path)
		// is reported as such instead of hanging the check
		var hv core.Verdict
		done := make(chan struct{})
		go func() { defer close(done); hv = judgeC19InMem(c) }()
		if stuck := waitOrDeadlock(done); stuck != "" {
			v.Failf("InMemLoader history %v: the loader stopped answering; every goroutine inside the engine waits for a lock (twice the same picture, 10 s apart): %s", c.Ops, stuck)
			return
		}
		hv.Labels = append(v.Labels, hv.Labels...)
		return hv
	}
	return judgeC19FS(c)
}

func judgeC19InMem(c c19Case) (v core.Verdict) {
	switch c.Kind {
	case "inmem":
		l := jet.NewInMemLoader()
		model := map[string]string{}
		differs := false
		stored := map[string]string{} // normalised -> spelling used to store
		for i, op := range c.Ops {
			np := normPath(op.Path)
			switch op.Op {
			case "set":
				l.Set(op.Path, op.Data)
				model[np] = op.Data
				stored[np] = op.Path
			case "delete":
				l.Delete(op.Path)
				if sp, ok := stored[np]; ok && sp != op.Path {
					differs = true
				}
				delete(model, np)
			case "open-then-set":
				// a reader obtained before an edit keeps yielding what was stored when it was opened
				want, has := model[np]
				rc, err := l.Open(op.Path)
				l.Set(op.Path, op.Data)
				model[np] = op.Data
				stored[np] = op.Path
				if has != (err == nil) {
					v.Failf("InMemLoader after %v: Open(%q) err=%v, model says stored=%v", c.Ops[:i], op.Path, err, has)
					return
				}
				if has {
					b, _ := io.ReadAll(rc)
					rc.Close()
					if string(b) != want {
						v.Failf("InMemLoader after %v: a reader opened before Set(%q, %q) yields %q; %q was stored when it was opened", c.Ops[:i], op.Path, op.Data, b, want)
						return
					}
				}
			case "exists", "open":
				want, has := model[np]
				if sp, ok := stored[np]; ok && sp != op.Path {
					differs = true
				}
				ex := l.Exists(op.Path)
				if ex != has {
					v.Failf("InMemLoader after %v: Exists(%q) = %v, model (normalised %q) says %v", c.Ops[:i], op.Path, ex, np, has)
					return
				}
				got, err := readAll(l, op.Path)
				if has && (err != nil || got != want) {
					v.Failf("InMemLoader after %v: Open(%q) = %q, %v; stored %q", c.Ops[:i], op.Path, got, err, want)
					return
				}
				if !has && err == nil {
					v.Failf("InMemLoader after %v: Open(%q) succeeded (%q) although nothing is stored under %q", c.Ops[:i], op.Path, got, np)
					return
				}
			}
		}
		v.NonTrivial = differs
		return
	}
	return
}

func judgeC19FS(c c19Case) (v core.Verdict) {
	tmp, err := os.MkdirTemp(core.OutDir(), "c19-")
	if err != nil {
		panic(err)
	}
	defer os.RemoveAll(tmp)
	var loaders []jet.Loader
	var models []map[string]string
	chdir := ""
	for i, ly := range c.Layers {
		l, m, err := buildLayer(ly, tmp, i, &chdir)
		if err != nil {
			panic(err)
		}
		if chdir != "" && ly.Kind == "http" && ly.Root%4 == 3 {
			v.Label("http.Dir-empty-root")
		}
		if chdir != "" && ly.Kind == "os" && ly.Root%7 >= 5 {
			v.Label("os-loader-rooted-at-working-directory")
		}
		loaders = append(loaders, l)
		models = append(models, m)
		v.Label("layer:" + ly.Kind)
	}
	if chdir != "" {
		old, err := os.Getwd()
		if err != nil || os.Chdir(chdir) != nil {
			panic("chdir")
		}
		defer os.Chdir(old)
	}
	isDirOrLater := false
	check := func(name string, l jet.Loader, active []map[string]string) bool {
		for _, q := range c.Queries {
			want, has, idx := "", false, -1
			for i, m := range active {
				if s, ok := m[q]; ok {
					want, has, idx = s, true, i
					break
				}
			}
			if idx > 0 {
				isDirOrLater = true
			}
			if !has {
				for _, ly := range c.Layers {
					for p := range ly.Files {
						if strings.HasPrefix(p, q+"/") {
							isDirOrLater = true // q names a directory
						}
					}
				}
			}
			ex := l.Exists(q)
			if ex != has {
				v.Failf("%s (layers %+v): Exists(%q) = %v but the model says %v (regular file in the first layer that has it)", name, c.Layers, q, ex, has)
				return false
			}
			if ex {
				got, err := readAll(l, q)
				if err != nil || got != want {
					v.Failf("%s (layers %+v): Exists(%q) is true but Open gave %q, %v; want %q", name, c.Layers, q, got, err, want)
					return false
				}
			}
		}
		return true
	}
	if c.Kind == "fs" {
		check(c.Layers[0].Kind+" loader", loaders[0], models[:1])
		v.NonTrivial = isDirOrLater
		return
	}
	m := multi.NewLoader(loaders[:c.Initial]...)
	if !check(fmt.Sprintf("multi of first %d", c.Initial), m, models[:c.Initial]) {
		return
	}
	if c.Initial < len(loaders) {
		m.AddLoaders(loaders[c.Initial:]...)
		v.Label("addloaders")
		if !check("multi after AddLoaders", m, models) {
			return
		}
	}
	// two stacks built from the very same slice of loaders; one is emptied and refilled with something else:
	// the other still answers from its own loaders, in its own order
	list := append(make([]jet.Loader, 0, len(loaders)), loaders...)
	m1, m2 := multi.NewLoader(list...), multi.NewLoader(list...)
	m2.ClearLoaders()
	foreign := jet.NewInMemLoader()
	fm := map[string]string{}
	for _, q := range c.Queries {
		foreign.Set(q, "FOREIGN")
		fm[normPath(q)] = "FOREIGN"
	}
	m2.AddLoaders(foreign)
	v.Label("clearloaders")
	if !check("multi whose sibling (built from the same slice) was cleared and refilled", m1, models) {
		return
	}
	if !check("multi after ClearLoaders + AddLoaders", m2, []map[string]string{fm}) {
		return
	}
	// two stacks built from the same slice, which has room to spare, each given one more loader: each keeps the
	// loaders it was built from and the one it was given itself, in that order
	if len(loaders) >= 2 {
		spare := make([]jet.Loader, len(loaders)-1, len(loaders)+3)
		copy(spare, loaders[:len(loaders)-1])
		s1, s2 := multi.NewLoader(spare...), multi.NewLoader(spare...)
		s1.AddLoaders(loaders[len(loaders)-1])
		s2.AddLoaders(foreign)
		v.Label("siblings-from-a-slice-with-spare-capacity")
		if !check("multi built from a slice with spare capacity, after a sibling built from the same slice was given another loader", s1, models) {
			return
		}
		if !check("second multi built from a slice with spare capacity", s2, append(append([]map[string]string{}, models[:len(models)-1]...), fm)) {
			return
		}
	}
	// the caller goes on using the slice it built the stack from (exactly full: len == cap): overwriting, reversing
	// or truncating it afterwards is the caller's business and changes nothing for the stack
	{
		own := make([]jet.Loader, len(loaders))
		copy(own, loaders)
		kept := multi.NewLoader(own...)
		for i := range own {
			own[i] = foreign
		}
		if len(own) > 1 {
			own[0], own[len(own)-1] = loaders[len(loaders)-1], loaders[0]
		}
		v.Label("callers-slice-rewritten-after-construction")
		if !check("multi whose caller overwrote the (exactly full) slice it was built from", kept, models) {
			return
		}
	}
	// a multi stacked inside a multi: the outer one answers from whatever the inner one holds at the time of the question
	inner := multi.NewLoader(loaders[:1]...)
	outer := multi.NewLoader(inner)
	v.Label("nested-multi")
	if !check("multi wrapping a multi of the first layer", outer, models[:1]) {
		return
	}
	if len(loaders) > 1 {
		inner.AddLoaders(loaders[1:]...)
		if !check("multi wrapping a multi, after the inner one was given the remaining layers", outer, models) {
			return
		}
	}
	inner.ClearLoaders()
	if !check("multi wrapping a multi, after the inner one was cleared", outer, nil) {
		return
	}
	// a path moves between the layers after Exists has answered and before Open is asked (no second Exists in
	// between): Open still answers from the first loader, in construction order, that has the path then
	front, back := jet.NewInMemLoader(), jet.NewInMemLoader()
	moving := multi.NewLoader(front, back)
	v.Label("edit-between-exists-and-open")
	for _, q := range c.Queries {
		back.Set(q, "BACK "+q)
		if !moving.Exists(q) {
			v.Failf("multi of two in-memory loaders: the second one holds %q but Exists says no", q)
			return
		}
		front.Set(q, "FRONT "+q)
		if got, err := readAll(moving, q); err != nil || got != "FRONT "+q {
			v.Failf("multi of two in-memory loaders: Exists(%q) was answered by the second loader, then the first loader got the path too: Open must give the first loader's content, got %q, %v", q, got, err)
			return
		}
		if !moving.Exists(q) {
			v.Failf("multi of two in-memory loaders: both hold %q but Exists says no", q)
			return
		}
		front.Delete(q)
		if got, err := readAll(moving, q); err != nil || got != "BACK "+q {
			v.Failf("multi of two in-memory loaders: Exists(%q) was answered by the first loader, which then lost the path: Open must give the second loader's content, got %q, %v", q, got, err)
			return
		}
	}
	v.NonTrivial = isDirOrLater
	return
}

func TestC19(t *testing.T) {
	core.Run(t, "C19",
		"(a) InMemLoader histories of Set/Delete/Exists/Open (run under a deadlock watchdog) under generated spellings (./ ../ // trailing slash, with and without leading slash) against a map keyed by an independent normaliser; (b) OS/http/embed loaders over generated trees (embed: a fixed tree below testdata/ and a package that embeds its own directory, root '.', with dot files and a dot directory at the top level) queried with every clean absolute path of the universe (files, directories, missing siblings, paths below files, root); (c) multi stacks of 1-4 such loaders with overlapping contents and AddLoaders mid-history, sibling stacks built from one slice with spare capacity, a stack whose caller overwrites the exactly-full slice it was built from, plus two in-memory layers between which a path moves after Exists has answered and before Open is asked; round 10: file and directory names that are not UTF-8 (in-memory and OS loaders); Loaders of a map type (not comparable) in stacks; non-trivial = a query spelt differently from the spelling used to store, or naming a directory, or answered by a later loader of a stack",
		genC19, judgeC19)
}

func TestC19Replay(t *testing.T) { core.Replay(t, "C19", judgeC19) }
