package checks

// C10 — Execute is a pure function of its inputs: no residue from earlier
// executions (successful or failed, of this or other templates) on pooled
// runtimes, and executing never modifies the parsed template.
//
// Histories of Execute calls over a pool of generated templates on one
// goroutine; oracle = each call issued right after the object pools were
// emptied (two forced GCs) versus the same call inside the history with one
// P and the GC off, so that the pooled Runtime is reused.

import (
	"fmt"
	"hash/fnv"
	"reflect"
	"runtime"
	"runtime/debug"
	"sort"
	"strings"
	"testing"

	"jetverif/core"
	"jetverif/jetrun"
	"jetverif/mj"

	"github.com/CloudyKit/jet/v6"
	"pgregory.net/rapid"
)

// data with a field promoted through an embedded pointer (nil or not)
type c10PEmb struct{ PName string }
type c10Emb struct {
	*c10PEmb
	Name string
}

// PtrOnly is a method with a pointer receiver: reachable through a pointer, not on a value passed by value
func (e *c10Emb) PtrOnly() string { return "ptr-method-of-" + e.Name }

type c10Call struct {
	Entry string `json:"entry"`
	Data  int    `json:"data"` // 0 nil, 1 string, 2 map, 3 struct with embedded pointer, 4 same with a nil embedded pointer, 5 the struct by value
	Vars  int    `json:"vars"` // 0 nil VarMap, 1 VarMap with values
	// >0: the io.Writer accepts this many bytes and then fails every write
	WriterFailsAfter int `json:"writer_fails_after,omitempty"`
	// 1: the template of that name in a second Set over the same sources whose escaper is switched off
	// (pooled Runtimes are shared by all Sets of the process)
	Set int `json:"set,omitempty"`
}

type c10FaultyWriter struct {
	buf   []byte
	limit int
}

func (w *c10FaultyWriter) Write(p []byte) (int, error) {
	room := w.limit - len(w.buf)
	if room <= 0 {
		return 0, fmt.Errorf("injected write failure")
	}
	if len(p) > room {
		w.buf = append(w.buf, p[:room]...)
		return room, fmt.Errorf("injected short write")
	}
	w.buf = append(w.buf, p...)
	return len(p), nil
}

type c10Case struct {
	Prog   *mj.Program `json:"prog"`
	Kinds  []string    `json:"kinds"` // kind of every entry template
	Calls  []c10Call   `json:"calls"`
	Src    []string    `json:"src"`
	Labels []string    `json:"labels,omitempty"`
}

// c10EntryPath: entries sit in the root directory, except those that include by relative name.
func c10EntryPath(i int, kind string) string {
	if kind == "relinclude" {
		return fmt.Sprintf("/dir%d/t%d.jet", i, i)
	}
	return fmt.Sprintf("/t%d.jet", i)
}

func c10EntryOf(kinds []string, i int) string { return c10EntryPath(i, kinds[i]) }

func genC10(t *rapid.T) c10Case {
	g := &c13Gen{t: t, labels: map[string]bool{}}
	g.p = &mj.Program{Vars: map[string]mj.Recipe{}}
	g.lib = &mj.File{Path: "/lib.jet", Body: []*mj.Node{
		{K: "block", Name: "wrap", Params: []mj.Param{{Name: "wp", E: mj.Str("wd")}}, Body: []*mj.Node{mj.Text("{w:"), {K: "ycontent"}, mj.Text(":w}")}},
	}}
	g.p.Files = []*mj.File{g.lib}
	c := c10Case{Prog: g.p}
	n := rapid.IntRange(3, 8).Draw(t, "ntemplates")
	for i := 0; i < n; i++ {
		kind := rapid.SampledFrom([]string{"ordinary", "failing", "failing", "probing", "probing", "embprobe", "returning", "nested-ranges", "trying", "publishing", "relinclude", "positional", "ptrmethod", "mapbuilder", "swallowing", "bumping", "rtwriting", "converting", "layoutuser", "layoutuser", "blocklesschild"}).Draw(t, "kind")
		path := c10EntryPath(i, kind)
		var body []*mj.Node
		rt := mj.Print(mj.Call("rtprobe"))
		switch kind {
		case "ordinary":
			body = g.path(rapid.IntRange(0, 3).Draw(t, "depth"), []*mj.Node{mj.Text("fine"), mj.Let(g.id("ov"), mj.Str("o"))})
		case "failing":
			depth := rapid.IntRange(1, 4).Draw(t, "fdepth")
			fail := g.failure()
			if rapid.IntRange(0, 5).Draw(t, "rtpanic") == 0 {
				// the failure is a Go runtime error inside a user function: Execute re-panics it (documented)
				fail = &mj.Node{K: "fail", Src: "rtpanicfn()", Class: "runtime-panic"}
				g.labels["failure:runtime-panic"] = true
			}
			inner := []*mj.Node{mj.Text("reached"), fail, mj.Text("never")}
			if rapid.IntRange(0, 3).Draw(t, "caught") == 0 {
				// the failure happens inside a try that handles it: must leave no residue either
				inner = []*mj.Node{{K: "try", Body: g.path(1, inner), HasCatch: true, Catch: []*mj.Node{mj.Text("(caught)")}}}
			}
			body = g.path(depth, inner)
		case "layoutuser", "blocklesschild":
			// a layout, a child of it that has no blocks of its own but imports a library with a block of the layout's
			// name, and pages that render the layout itself: loading the child must not change the layout
			have := false
			for _, f := range g.p.Files {
				have = have || f.Path == "/lay/shared-layout.jet"
			}
			if !have {
				g.p.Files = append(g.p.Files,
					&mj.File{Path: "/lay/shared-layout.jet", Body: []*mj.Node{mj.Text("<L:"), {K: "block", Name: "lbody", Body: []*mj.Node{mj.Text("default body")}}, mj.Text("|"), {K: "block", Name: "lside", Body: []*mj.Node{mj.Text("default side")}}, mj.Text(">")}},
					&mj.File{Path: "/lay/theme.jet", Body: []*mj.Node{{K: "block", Name: "lbody", Body: []*mj.Node{mj.Text("themed body")}}}},
					&mj.File{Path: "/lay/child.jet", Extends: "/lay/shared-layout.jet", Imports: []string{"/lay/theme.jet"}})
			}
			if kind == "layoutuser" {
				body = []*mj.Node{mj.Text("(layout:"), {K: "include", E: mj.Str("/lay/shared-layout.jet")}, mj.Text(")")}
			} else {
				body = []*mj.Node{mj.Text("(child:"), {K: "include", E: mj.Str("/lay/child.jet")}, mj.Text(")")}
			}
		case "rtwriting":
			// a function that writes through the Runtime it is handed; what it writes last ends inside a character
			body = []*mj.Node{mj.Text("(written:"), mj.Print(mj.Call("rtWrite", mj.Str("a<"), mj.Str([]string{"caf\xc3", "日\xe6\x9c", "x\xf0\x9f\x98", "plain"}[rapid.IntRange(0, 3).Draw(t, "rtwTail")]))), mj.Text(")")}
			if rapid.Bool().Draw(t, "rtwLast") {
				body = body[:2] // nothing at all after the call
			}
		case "bumping":
			// a counter initialised from a literal and incremented by a Go helper: every execution starts from the literal
			body = []*mj.Node{mj.Let("count", mj.Num(float64(rapid.IntRange(0, 2).Draw(t, "bumpFrom")))), mj.Print(mj.Call("bump", mj.Str("count"))), mj.Text("(count="), mj.Print(mj.Var("count")), mj.Text(")"),
				mj.Let("word", mj.Str("w")), mj.Let("word2", mj.Var("word")), mj.Print(mj.Call("bump", mj.Str("word"))), mj.Text("(word="), mj.Print(mj.Var("word")), mj.Text(")(word2="), mj.Print(mj.Var("word2")), mj.Text(")")}
		case "swallowing":
			// the execution succeeds although something failed on the way: isset() asked for a member of what a
			// template returns, and that template failed below constructs that had opened scopes / rebound '.'
			g.uniq++
			sub := &mj.File{Path: fmt.Sprintf("/inc/sw%d.jet", g.uniq), Imports: []string{"/lib.jet"}, Body: g.path(rapid.IntRange(1, 3).Draw(t, "swdepth"), []*mj.Node{mj.Text("reached"), g.failure(), mj.Text("never")})}
			g.p.Files = append(g.p.Files, sub)
			body = []*mj.Node{mj.Text("(answer:"), mj.Print(mj.Call("isset", mj.Chain(mj.Call("exec", mj.Str(sub.Path)), "x"))), mj.Text(")(.="), mj.Print(mj.Dot()), mj.Text(")")}
			for _, d := range g.decls {
				if rapid.IntRange(0, 3).Draw(t, "swProbeDecl") == 0 {
					body = append(body, mj.Text(d+":"), mj.Print(mj.Call("isset", mj.Var(d))), mj.Text(" "))
				}
			}
		case "trying":
			// try bodies that succeed: their buffered output is handed to the destination (which may fail half-way)
			body = []*mj.Node{{K: "try", Body: []*mj.Node{mj.Text("tried:"), mj.Print(mj.Dot()), mj.Text(":0123456789abcdefghijklmnopqrstuvwxyz"),
				{K: "try", Body: []*mj.Node{mj.Text("(inner "), mj.Print(mj.Var("xs")), mj.Text(")")}}}, HasCatch: rapid.Bool().Draw(t, "tryCatch"), Catch: []*mj.Node{mj.Text("(unreachable)")}}, mj.Text("after-try")}
		case "relinclude":
			// a page in a directory of its own that includes "row.jet": the same spelling means another file for every page
			// (the entry itself lives in that directory: see c10EntryPath)
			dir := fmt.Sprintf("/dir%d", i)
			g.p.Files = append(g.p.Files, &mj.File{Path: dir + "/row.jet", Body: []*mj.Node{mj.Text("ROW-OF-" + dir)}})
			body = []*mj.Node{mj.Text("page" + dir + ":"), {K: "include", E: mj.Str("row.jet")}}
			if rapid.Bool().Draw(t, "relIncludeTwice") {
				body = append(body, &mj.Node{K: "range", E: mj.Call("ints", mj.Num(0), mj.Num(2)), Body: []*mj.Node{{K: "include", E: mj.Str("./row.jet")}}})
			}
		case "positional":
			// pages that share a layout whose yield passes its arguments by position and override the yielded
			// block with parameters of their own (what executing one page does to the layout must not show in another)
			hasLay := false
			for _, f := range g.p.Files {
				hasLay = hasLay || f.Path == "/lay/pos.jet"
			}
			if !hasLay {
				g.p.Files = append(g.p.Files, &mj.File{Path: "/lay/pos.jet", Body: []*mj.Node{mj.Text("<lay:"), {K: "fail", Src: `yield row("A", "B")`, Class: "not-modelled"}, mj.Text(">"),
					{K: "block", Name: "row", Params: []mj.Param{{Name: "first", E: mj.Str("f")}, {Name: "second", E: mj.Str("s")}}, Body: []*mj.Node{mj.Text("[default row]")}}}})
			}
			names := [][2]string{{"pa", "pb"}, {"pb", "pa"}, {"first", "second"}, {"second", "first"}}[i%4]
			g.p.Files = append(g.p.Files, &mj.File{Path: fmt.Sprintf("/pos/p%d.jet", i), Extends: "/lay/pos.jet", Body: []*mj.Node{
				{K: "block", Name: "row", Params: []mj.Param{{Name: names[0], E: mj.Str("d0")}, {Name: names[1], E: mj.Str("d1")}}, Body: []*mj.Node{mj.Text("[row of p:"), mj.Print(mj.Var(names[0])), mj.Text("|"), mj.Print(mj.Var(names[1])), mj.Text("]")}}}})
			body = []*mj.Node{{K: "include", E: mj.Str(fmt.Sprintf("/pos/p%d.jet", i))}}
		case "ptrmethod":
			// calls a pointer-receiver method of the context: fine for data handed over as a pointer, an error for the
			// same struct handed over by value - in whatever order the two executions come
			body = []*mj.Node{mj.Text("[ptrmethod:"), {K: "fail", Src: ".PtrOnly()", Class: "not-modelled"}, mj.Text("]")}
		case "converting":
			// a slice handed to a Go function that takes an array (or a pointer to one): whether it fits depends on this
			// slice alone, not on what an earlier execution handed over
			fn := []string{"arr3", "parr2"}[rapid.IntRange(0, 1).Draw(t, "convFn")]
			arg := []string{"slice(1, 2)", "slice(1, 2, 3)", `slice("a")`, `slice("a", "b", "c", "d")`}[rapid.IntRange(0, 3).Draw(t, "convArg")]
			body = []*mj.Node{mj.Text("(converted:"), {K: "fail", Src: fn + "(" + arg + ")", Class: "not-modelled"}, mj.Text(")")}
		case "mapbuilder":
			// builds a map of its own from an empty map(): nothing of it may be there the next time
			body = []*mj.Node{{K: "fail", Src: "mb := map()", Class: "not-modelled"}, {K: "fail", Src: `mb.k = "v"`, Class: "not-modelled"}, {K: "fail", Src: `mb.ctx = .`, Class: "not-modelled"}, mj.Text("[built "), {K: "fail", Src: "len(mb)", Class: "not-modelled"}, mj.Text("]"),
				{K: "fail", Src: "sb := slice()", Class: "not-modelled"}, mj.Text("[empty slice "), {K: "fail", Src: "len(sb)", Class: "not-modelled"}, mj.Text("]")}
		case "publishing":
			// a function that declares a variable through the Runtime API (LetGlobal): visible to the rest of
			// this execution only, whatever VarMap (nil or not) the caller passed
			body = []*mj.Node{mj.Print(mj.Call("publish")), mj.Text("published:"), mj.Print(mj.Call("isset", mj.Var("pub")))}
		case "returning":
			// a {{return}} inside a range: the loop ends early (pooled cursors must survive that)
			sub := []string{"xs", "m1", "sarr", "m3"}[rapid.IntRange(0, 3).Draw(t, "retsubject")]
			body = []*mj.Node{{K: "range", E: mj.Var(sub), Body: []*mj.Node{mj.Text("r"), mj.If(mj.Bool(true), []*mj.Node{{K: "return", E: mj.Num(1)}}, nil)}}, mj.Text("after")}
		case "nested-ranges":
			sub := []string{"xs", "m1", "sarr"}[rapid.IntRange(0, 2).Draw(t, "nestsubject")]
			body = []*mj.Node{{K: "range", Names: []string{"ka", "va"}, Decl: true, E: mj.Var(sub), Body: []*mj.Node{mj.Text("["), mj.Print(mj.Var("va")), {K: "range", Names: []string{"kb", "vb"}, Decl: true, E: mj.Var(sub), Body: []*mj.Node{mj.Print(mj.Var("vb")), mj.Text(",")}}, mj.Text("]")}}}
		case "embprobe":
			// a field promoted through an embedded pointer: value, or an error when the pointer is nil
			body = []*mj.Node{mj.Text("[emb:"), mj.Print(mj.Field("PName")), mj.Text("|"), mj.Print(mj.Field("Name")), mj.Text("]")}
		default:
			body = []*mj.Node{mj.Text("[probe content:"), {K: "ycontent"}, mj.Text("|.="), mj.Print(mj.Dot()), mj.Text("|")}
			for _, d := range g.decls {
				if rapid.IntRange(0, 2).Draw(t, "probeDecl") == 0 {
					body = append(body, mj.Text(d+":"), mj.Print(mj.Call("isset", mj.Var(d))), mj.Text(" "))
				}
			}
			body = append(body, mj.Text("wp:"), mj.Print(mj.Call("isset", mj.Var("wp"))), mj.Text(" pub:"), mj.Print(mj.Call("isset", mj.Var("pub"))), mj.Text("]"))
			if rapid.IntRange(0, 1).Draw(t, "probeEmptyMap") == 0 {
				body = append(body, &mj.Node{K: "range", Names: []string{"ek", "ev"}, Decl: true, E: mj.Var("emptym"), Body: []*mj.Node{mj.Text("<stale "), mj.Print(mj.Var("ek")), mj.Text(">")}, HasElse: true, Else: []*mj.Node{mj.Text("<no entries>")}})
			}
			if rapid.IntRange(0, 2).Draw(t, "probeRange") == 0 {
				body = append(body, &mj.Node{K: "range", E: mj.Call("slice", mj.Str("p1"), mj.Str("p2")), Body: []*mj.Node{mj.Text("<"), mj.Print(mj.Dot()), mj.Text(">")}})
			}
		}
		f := &mj.File{Path: path, Imports: []string{"/lib.jet"}, Body: append([]*mj.Node{rt, mj.Text("<" + path + ">")}, append(body, mj.Text("</>"))...)}
		g.p.Files = append(g.p.Files, f)
		c.Kinds = append(c.Kinds, kind)
	}
	failVars(g.p)
	failFiles(g.p)
	g.p.Vars["xs"] = mj.RInts(1, 2, 3)
	g.p.Vars["m1"] = mj.Recipe{T: "map[string]int", Keys: []string{"only"}, Is: []int64{7}}
	g.p.Vars["sarr"] = mj.Recipe{T: "sarray", Ss: []string{"p", "q"}}
	g.p.Vars["m3"] = mj.Recipe{T: "map[string]int", Keys: []string{"a", "b", "c", "d"}, Is: []int64{1, 2, 3, 4}}
	g.p.Vars["emptym"] = mj.Recipe{T: "map[string]int"}
	ncalls := rapid.IntRange(2, 15).Draw(t, "ncalls")
	for i := 0; i < ncalls; i++ {
		c.Calls = append(c.Calls, c10Call{
			Entry: c10EntryOf(c.Kinds, rapid.IntRange(0, n-1).Draw(t, "entry")),
			Data:  rapid.IntRange(0, 5).Draw(t, "data"),
			Vars:  rapid.IntRange(0, 1).Draw(t, "vars"),
			// sometimes the destination fails after a few bytes (a connection that breaks mid-response)
			WriterFailsAfter: []int{0, 0, 0, 0, 1, 7, 30}[rapid.IntRange(0, 6).Draw(t, "writerFault")],
			Set:              []int{0, 0, 0, 1}[rapid.IntRange(0, 3).Draw(t, "whichSet")],
		})
	}
	src := mj.NewPrinter().Sources(g.p)
	var paths []string
	for p := range src {
		paths = append(paths, p)
	}
	sort.Strings(paths)
	for _, p := range paths {
		c.Src = append(c.Src, p+": "+src[p])
	}
	for k := range g.labels {
		c.Labels = append(c.Labels, k)
	}
	sort.Strings(c.Labels)
	return c
}

// structural hash of a parsed template (exported AST and unexported fields, read-only reflection)
func hashTemplate(t *jet.Template) uint64 {
	h := fnv.New64a()
	seen := map[uintptr]bool{}
	var walk func(v reflect.Value, depth int)
	walk = func(v reflect.Value, depth int) {
		if depth > 200 {
			return
		}
		switch v.Kind() {
		case reflect.Ptr:
			if v.IsNil() {
				h.Write([]byte{0})
				return
			}
			if v.Type().Elem().Name() == "Set" || v.Type().Elem().Name() == "lexer" {
				return
			}
			if seen[v.Pointer()] {
				h.Write([]byte{1})
				return
			}
			seen[v.Pointer()] = true
			h.Write([]byte{2})
			walk(v.Elem(), depth+1)
		case reflect.Interface:
			if v.IsNil() {
				h.Write([]byte{0})
				return
			}
			h.Write([]byte(v.Elem().Type().String()))
			walk(v.Elem(), depth+1)
		case reflect.Struct:
			for i := 0; i < v.NumField(); i++ {
				h.Write([]byte(v.Type().Field(i).Name))
				walk(v.Field(i), depth+1)
			}
		case reflect.Slice, reflect.Array:
			fmt.Fprintf(h, "[%d", v.Len())
			for i := 0; i < v.Len(); i++ {
				walk(v.Index(i), depth+1)
			}
		case reflect.Map:
			keys := v.MapKeys()
			sort.Slice(keys, func(i, j int) bool { return keys[i].String() < keys[j].String() })
			fmt.Fprintf(h, "{%d", len(keys))
			for _, k := range keys {
				h.Write([]byte(k.String()))
				walk(v.MapIndex(k), depth+1)
			}
		case reflect.String:
			h.Write([]byte(v.String()))
		case reflect.Bool:
			if v.Bool() {
				h.Write([]byte{1})
			} else {
				h.Write([]byte{0})
			}
		case reflect.Int, reflect.Int8, reflect.Int16, reflect.Int32, reflect.Int64:
			fmt.Fprintf(h, "i%d", v.Int())
		case reflect.Uint, reflect.Uint8, reflect.Uint16, reflect.Uint32, reflect.Uint64:
			fmt.Fprintf(h, "u%d", v.Uint())
		case reflect.Float32, reflect.Float64:
			fmt.Fprintf(h, "f%v", v.Float())
		case reflect.Complex64, reflect.Complex128:
			fmt.Fprintf(h, "c%v", v.Complex())
		}
	}
	walk(reflect.ValueOf(t), 0)
	return h.Sum64()
}

// c10Globals: Go functions with array parameters (the "converting" templates hand them slices)
func c10Globals(s *jet.Set) {
	s.AddGlobal("arr3", func(a [3]interface{}) string { return fmt.Sprint("arr3:", a[0], a[2]) })
	s.AddGlobal("parr2", func(p *[2]interface{}) string { return fmt.Sprint("parr2:", p[0], p[1]) })
}

func judgeC10(c c10Case) (v core.Verdict) {
	src := mj.NewPrinter().Sources(c.Prog)
	var rtLog []string
	sets := [2]*jet.Set{}
	sets[0], _ = jetrun.NewSet(src)
	sets[1], _ = jetrun.NewSet(src, jet.WithSafeWriter(nil))
	tpls := map[string]*jet.Template{}
	hashes := map[string]uint64{}
	for si, s := range sets {
		s.AddGlobalFunc("rtprobe", func(a jet.Arguments) reflect.Value {
			rtLog = append(rtLog, fmt.Sprintf("%p", a.Runtime()))
			return reflect.Value{}
		})
		s.AddGlobalFunc("publish", func(a jet.Arguments) reflect.Value {
			a.Runtime().LetGlobal("pub", "P")
			return reflect.Value{}
		})
		c10Globals(s)
		for k, f := range failFuncs() {
			s.AddGlobalFunc(k, f)
		}
		for k, r := range c.Prog.Vars {
			s.AddGlobal(k, mj.Build(r))
		}
		for _, f := range c.Prog.Files {
			t, o := jetrun.Get(s, f.Path)
			if o.Failed() {
				v.Discard = "pool template does not parse"
				return
			}
			key := fmt.Sprintf("%d:%s", si, f.Path)
			tpls[key] = t
			hashes[key] = hashTemplate(t)
		}
	}
	tplOf := func(call c10Call) *jet.Template { return tpls[fmt.Sprintf("%d:%s", call.Set, call.Entry)] }
	// the data values are built once: some templates print '.', and pointers print as addresses
	datas := []interface{}{nil, "D<1>&", map[string]interface{}{"k": "D\"2'"}, &c10Emb{c10PEmb: &c10PEmb{PName: "promoted"}, Name: "emb"}, &c10Emb{Name: "emb-nil"}, c10Emb{c10PEmb: &c10PEmb{PName: "promoted-v"}, Name: "emb-by-value"}}
	exec := func(call c10Call) jetrun.Outcome {
		data := datas[call.Data]
		var vars jet.VarMap
		if call.Vars == 1 {
			vars = jet.VarMap{}
			vars.Set("uservar", "UV")
		}
		if call.WriterFailsAfter > 0 {
			w := &c10FaultyWriter{limit: call.WriterFailsAfter}
			var o jetrun.Outcome
			func() {
				defer func() {
					if r := recover(); r != nil {
						o.Panicked, o.PanicVal = true, fmt.Sprint(r)
					}
					o.Out = string(w.buf)
				}()
				o.Err = tplOf(call).Execute(w, vars, data)
			}()
			return o
		}
		return jetrun.Exec(tplOf(call), vars, data)
	}
	// expectations: every call on fresh pools
	var want []jetrun.Outcome
	for _, call := range c.Calls {
		runtime.GC()
		runtime.GC()
		want = append(want, exec(call))
	}
	// the history: one P, no GC, so the pooled Runtime is handed from call to call
	runtime.GC()
	runtime.GC()
	oldProcs := runtime.GOMAXPROCS(1)
	oldGC := debug.SetGCPercent(-1)
	rtLog = rtLog[:0]
	var got []jetrun.Outcome
	var ptrs []string
	for _, call := range c.Calls {
		n := len(rtLog)
		got = append(got, exec(call))
		if len(rtLog) > n {
			ptrs = append(ptrs, rtLog[n])
		} else {
			ptrs = append(ptrs, "?")
		}
	}
	debug.SetGCPercent(oldGC)
	runtime.GOMAXPROCS(oldProcs)

	kindOf := map[string]string{}
	for i, k := range c.Kinds {
		kindOf[c10EntryPath(i, k)] = k
	}
	reuse, failThenProbe := false, false
	for i := 1; i < len(c.Calls); i++ {
		if ptrs[i] == ptrs[i-1] && ptrs[i] != "?" {
			reuse = true
			if want[i-1].Err != nil && kindOf[c.Calls[i].Entry] == "probing" {
				failThenProbe = true
			}
		}
	}
	v.NonTrivial = failThenProbe
	if reuse {
		v.Label("runtime-reuse-observed")
	}
	if failThenProbe {
		v.Label("failing-then-probing-on-same-runtime")
	}
	v.Label(c.Labels...)
	desc := func(i int) string {
		return fmt.Sprintf("history %+v over templates %q: call #%d (%+v, runtime %s, previous runtime %s)", c.Calls, c.Src, i, c.Calls[i], ptrs[i], map[bool]string{true: ptrs[max(i-1, 0)], false: "-"}[i > 0])
	}
	for i := range c.Calls {
		w, g := want[i], got[i]
		if g.Panicked || w.Panicked {
			// only a Go runtime error raised by the user function rtpanicfn may (and must, both times) escape as a panic
			intended := strings.Contains(g.PanicVal+w.PanicVal, "assignment to entry in nil map")
			if !intended || g.Panicked != w.Panicked {
				v.Failf("%s: Execute panicked (in history: %v %s; on fresh state: %v %s)", desc(i), g.Panicked, g.PanicVal, w.Panicked, w.PanicVal)
				return
			}
			if w.Out != g.Out {
				v.Failf("%s: output before the panic depends on what ran before: %q vs %q", desc(i), w.Out, g.Out)
				return
			}
			continue
		}
		if (w.Err == nil) != (g.Err == nil) {
			v.Failf("%s: on fresh state err=%v, inside the history err=%v", desc(i), w.Err, g.Err)
			return
		}
		if w.Err != nil {
			f1, l1, _ := jetrun.ErrPos(w.Err)
			f2, l2, _ := jetrun.ErrPos(g.Err)
			if f1 != f2 || l1 != l2 {
				v.Failf("%s: error position differs: fresh %v, in history %v", desc(i), w.Err, g.Err)
				return
			}
		}
		if w.Out != g.Out {
			v.Failf("%s: output depends on what ran before:\n fresh state %q\n in history  %q", desc(i), w.Out, g.Out)
			return
		}
	}
	for p, t := range tpls {
		if hashTemplate(t) != hashes[p] {
			v.Failf("history %+v: executing modified the parsed template %s", c.Calls, p)
			return
		}
	}
	// second opinion: the reference interpreter, where it is defined
	for i, call := range c.Calls {
		if want[i].Err != nil || want[i].Panicked || call.Vars == 1 || call.Data >= 3 || call.WriterFailsAfter > 0 || call.Set != 0 {
			continue
		}
		p := *c.Prog
		p.Entry = call.Entry
		p.Globals = c.Prog.Vars
		p.Vars = nil
		switch call.Data {
		case 1:
			d := mj.RStr("D<1>&")
			p.Data = &d
		case 2:
			d := mj.Recipe{T: "map[string]any", Keys: []string{"k"}, Elems: []mj.Recipe{mj.RStr("D\"2'")}}
			p.Data = &d
		}
		m, discard := mj.ModelRun(&p, func(in *mj.Interp) {
			c18ModelSetup(in)
			in.Funcs["bump"] = func(in *mj.Interp, a []interface{}) interface{} {
				if v, ok := in.APIResolve(a[0].(string)); ok {
					if f, isF := v.(float64); isF {
						in.APISet(a[0].(string), f+1)
					} else if s, isS := v.(string); isS {
						in.APISet(a[0].(string), s+"!")
					}
				}
				return nil
			}
			in.Funcs["rtprobe"] = func(*mj.Interp, []interface{}) interface{} { return nil }
		})
		if discard == "" && m.Err == nil && m.Out != want[i].Out {
			v.Failf("%s: fresh-state output %q differs from the reference interpreter's %q", desc(i), want[i].Out, m.Out)
			return
		}
	}
	return
}

func TestC10(t *testing.T) {
	core.Run(t, "C10",
		"histories of 2-15 Execute calls (template, nil/string/map data, nil or non-nil VarMap, destination that works or fails after 1/7/30 bytes) on one goroutine over a pool of 3-8 generated templates: ordinary, failing (failure of any of 24 kinds below range / if-let / block / yield-with-content / yielded block body / include with context / inner try / block yielded by a Go helper through Runtime.YieldBlock, uncaught or caught), trying (successful try bodies, nested), returning from a range (slice, array, 1- and 4-entry maps), nested ranges over the same value, publishing (a function calling Runtime.LetGlobal), swallowing (isset of a failing exec), bumping (a helper changing a variable in place), a layout / theme library / block-less child trio, pages in directories of their own including the same relative name, pages overriding a block that a shared layout yields with positional arguments, and probing (top-level yield content, '.', isset of names other templates declare or publish, a range, a range-else over an empty map), each call on one of two Sets over the same sources (default escaper / escaper off; data with HTML-special bytes); also: writing (a function writing through the Runtime, ending inside a character), converting (slices of 1-4 elements handed to functions that take [3]T / *[2]T), a helper changing a string variable in place, Renderers that fail after a piece that ends inside a character; round 10: values whose String method fails while a SafeWriter prints them; oracle = every call reproduces byte for byte (errors: nil-ness and position) what the same call renders right after the object pools were emptied by two forced GCs, while the history runs with GOMAXPROCS(1) and GC off so the pooled Runtime is reused (pointer observed through a probe function); structural hash of every Template before/after; reference interpreter as second opinion; non-trivial = a failing execution followed by a probing one on the same Runtime pointer",
		genC10, judgeC10)
}

func TestC10Replay(t *testing.T) { core.Replay(t, "C10", judgeC10) }
