package checks

// C05 — if renders exactly one branch; range runs once per element (in order,
// maps once per entry), binds index/key, value and '.' as documented for the
// zero-, one- and two-variable forms, and renders else iff there are no
// elements.

import (
	"fmt"
	"sort"
	"strings"
	"testing"
	"time"

	"jetverif/core"
	"jetverif/jetrun"
	"jetverif/mj"

	"pgregory.net/rapid"
)

type c05Case struct {
	Prog   *mj.Program `json:"prog"`
	Src    string      `json:"src"`
	Labels []string    `json:"labels,omitempty"`
}

type c05Gen struct {
	t       *rapid.T
	p       *mj.Program
	tag     int
	labels  map[string]bool
	inMulti bool // inside the body of a multi-entry map range
}

func (g *c05Gen) n(lo, hi int, l string) int { return rapid.IntRange(lo, hi).Draw(g.t, l) }
func (g *c05Gen) nextTag(p string) string    { g.tag++; return fmt.Sprintf("%s%d", p, g.tag) }

// the fixed data zoo of this check (recipes are part of the case)
func c05Vars() map[string]mj.Recipe {
	return map[string]mj.Recipe{
		"xs":    mj.RInts(10, 20, 30),
		"x1":    mj.RInts(7),
		"ss":    mj.RStrs("a", "", "c"),
		"anys":  mj.RAny(mj.RBool(false), mj.RInt(0), mj.RStr(""), mj.RStr("a"), mj.RInt(1), mj.RFloat(1.5), mj.RBool(true), mj.RFloat(0)),
		"any2":  mj.RAny(mj.RInt(0), mj.RStr("z")),
		"arr":   {T: "array", Is: []int64{4, 5}},
		"sarr":  {T: "sarray", Ss: []string{"p", "q"}},
		"eif":   {T: "embiface"},
		"euf":   {T: "embuiface"},
		"zarr":  {T: "array", Is: []int64{0, 0, 0}}, // arrays whose elements are all zero values still have elements
		"zsarr": {T: "sarray", Ss: []string{"", ""}},
		"pzarr": {T: "ptr", Elems: []mj.Recipe{{T: "array", Is: []int64{0, 0}}}},
		"parr":  {T: "*[]int", Is: []int64{8, 9}},
		"m1":    {T: "map[string]int", Keys: []string{"k"}, Is: []int64{1}},
		"mN":    {T: "map[string]int", Keys: []string{"a", "b", "c"}, Is: []int64{1, 0, 3}},
		"mi":    {T: "map[int]string", Is: []int64{5}, Ss: []string{"five"}},
		"miN":   {T: "map[int]string", Is: []int64{1, 2}, Ss: []string{"one", ""}},
		"many":  {T: "map[string]any", Keys: []string{"t", "f"}, Elems: []mj.Recipe{mj.RStr("yes"), mj.RBool(false)}},
		"ch":    {T: "chan int", Is: []int64{1, 0, 2}},
		"chs":   {T: "chan string", Ss: []string{"u", ""}},
		"rch":   {T: "<-chan int", Is: []int64{6, 0}},
		"hdr":   mj.RStr("outer-hdr"),
		"mnan":  {T: "map[float64]string-with-nan"},
		// functions declared to return interface{}: what counts is the value inside
		"fz0": {T: "ifunc", I: 0}, "fz1": {T: "ifunc", I: 1}, "fz2": {T: "ifunc", I: 2}, "fz3": {T: "ifunc", I: 3}, "fz4": {T: "ifunc", I: 4},
		"fz5": {T: "ifunc", I: 5}, "fz6": {T: "ifunc", I: 6}, "fz7": {T: "ifunc", I: 7}, "fz8": {T: "ifunc", I: 8}, "fz9": {T: "ifunc", I: 9},
		"long":  {T: "iota", I: 259},
		"longa": {T: "iota-array"},
		"rg":    {T: "ranger", Ss: []string{"r0", "r1"}},
		"rp":    {T: "ranger-plain", Ss: []string{"s0", "", "s2"}},
		"stk":   {T: "stack-ranger", Ss: []string{"bottom", "middle", "top"}},
		"ih":    {T: "iface-holder"},
		"eh":    {T: "err-holder"},
		"nrg":   {T: "nilok-ranger"},
		"okrg":  {T: "nilok-ranger", Ss: []string{"n0", "n1"}},
		"e_xs":  mj.RInts(),
		"e_any": mj.RAny(),
		"e_m":   {T: "map[string]int"},
		"e_ch":  {T: "chan int"},
		"e_rg":  {T: "ranger"},
		"e_rp":  {T: "ranger-plain"},
		"e_arr": {T: "array"},
		"nilxs": {T: "nil[]int"},
		"nilm":  {T: "nilmap"},
		// non-rangeable
		"n_int": mj.RInt(5),
		"n_str": mj.RStr("abc"),
		"n_nil": mj.RNil(),
		"n_ptr": {T: "nil*[]int"},
		// conditions
		"bt": mj.RBool(true), "bf": mj.RBool(false),
		"i0": mj.RInt(0), "i1": mj.RInt(1), "i8": {T: "int8", I: 0}, "u0": {T: "uint", I: 0}, "u3": {T: "uint8", I: 3},
		"f0": mj.RFloat(0), "f1": mj.RFloat(0.5), "f32": {T: "float32", F: 0},
		"s0": mj.RStr(""), "s1": mj.RStr("x"),
		"nl": mj.RNil(), "np": {T: "nil*user"}, "pu": {T: "*user", S: "bob"}, "us": {T: "user", S: "amy"},
		"nm": {T: "nilmap"}, "em": {T: "map[string]int"}, "ns": {T: "nil[]int"}, "es": mj.RInts(),
	}
}

type c05Subject struct {
	name    string
	indexed bool
	n       int  // number of elements on first use
	multi   bool // multi-entry map: compared as a multiset
	fails   bool
	once    bool // consumed by ranging (second range sees nothing)
}

var c05Subjects = []c05Subject{
	{"xs", true, 3, false, false, false}, {"x1", true, 1, false, false, false}, {"ss", true, 3, false, false, false}, {"anys", true, 8, false, false, false}, {"any2", true, 2, false, false, false},
	{"arr", true, 2, false, false, false}, {"sarr", true, 2, false, false, false}, {"parr", true, 2, false, false, false},
	{"zarr", true, 3, false, false, false}, {"zsarr", true, 2, false, false, false}, {"pzarr", true, 2, false, false, false},
	{"m1", true, 1, false, false, false}, {"mN", true, 3, true, false, false}, {"mi", true, 1, false, false, false}, {"miN", true, 2, true, false, false}, {"many", true, 2, true, false, false},
	{"ch", false, 3, false, false, true}, {"chs", false, 2, false, false, true}, {"rg", true, 2, false, false, true}, {"rp", false, 3, false, false, true}, {"stk", false, 3, false, false, true},
	{"e_xs", true, 0, false, false, false}, {"e_any", true, 0, false, false, false}, {"e_m", true, 0, false, false, false}, {"e_ch", false, 0, false, false, false}, {"e_rg", true, 0, false, false, false}, {"e_rp", false, 0, false, false, false}, {"e_arr", true, 0, false, false, false},
	{"nilxs", true, 0, false, false, false}, {"nilm", true, 0, false, false, false},
	{"n_int", false, 0, false, true, false}, {"n_str", false, 0, false, true, false}, {"n_nil", false, 0, false, true, false}, {"n_ptr", false, 0, false, true, false},
	{"ints", true, 3, false, false, false},
	{"rch", false, 2, false, false, true},
	{"mnan", true, 3, true, false, false},
	{"nrg", false, 0, false, false, false}, {"okrg", false, 2, false, false, true},
}

var c05CondVars = []string{"bt", "bf", "i0", "i1", "i8", "u0", "u3", "f0", "f1", "f32", "s0", "s1", "nl", "np", "pu", "us", "nm", "em", "ns", "es", "xs", "e_xs"}

func (g *c05Gen) cond(scope []string) *mj.Expr {
	switch k := g.n(0, 13, "condkind"); {
	case k == 13:
		// a slot of an interface type that has methods (error, fmt.Stringer) with something in it is true, whatever the
		// value inside looks like (a struct without fields, here)
		f := []string{"Err", "Note"}[g.n(0, 1, "ifaceCondField")]
		g.labels["cond:slot-of-an-interface-type-with-methods:"+f] = true
		return mj.Chain(mj.Var("eh"), f)
	case k == 12:
		// (not fz6, a nil interface{}: header variables are printed, and how nil prints is left open)
		f := fmt.Sprintf("fz%d", []int{0, 1, 2, 3, 4, 5, 7}[g.n(0, 6, "ifuncCond")])
		g.labels["cond:result-of-a-function-returning-interface{}"] = true
		if g.n(0, 3, "ifuncNot") == 0 {
			return mj.Not(mj.Call(f))
		}
		return mj.Call(f)
	case k <= 4:
		v := c05CondVars[g.n(0, len(c05CondVars)-1, "condvar")]
		g.labels["cond:"+v] = true
		return mj.Var(v)
	case k == 5:
		return []*mj.Expr{mj.Bool(true), mj.Bool(false), mj.Num(0), mj.Num(1), mj.Str(""), mj.Str("a"), mj.Nil()}[g.n(0, 6, "condlit")]
	case k == 6:
		return mj.Not(mj.Var(c05CondVars[g.n(0, len(c05CondVars)-1, "notvar")]))
	case k == 7:
		return mj.Bin("==", mj.Var("i1"), mj.Num(float64(g.n(0, 1, "eqto"))))
	case k == 8:
		// interface-typed struct fields promoted through an embedded pointer / an unexported embedded struct
		base := []string{"eif", "euf"}[g.n(0, 1, "promotedBase")]
		f := []string{"Flag", "Count", "Name", "On"}[g.n(0, 3, "promotedField")]
		g.labels["cond:promoted-interface-field:"+base+"."+f] = true
		return mj.Chain(mj.Var(base), f)
	default:
		if len(scope) > 0 {
			s := scope[g.n(0, len(scope)-1, "scopecond")]
			g.labels["cond:loop-binding"] = true
			if s == "." {
				return mj.Dot()
			}
			return mj.Var(s)
		}
		return mj.Var(c05CondVars[g.n(0, len(c05CondVars)-1, "condvar2")])
	}
}

func (g *c05Gen) ifChain(depth int, scope []string) *mj.Node {
	arms := g.n(1, 4, "arms")
	var first, cur *mj.Node
	var hdrs []string // variables declared by the headers of earlier links: visible in every later link and in the final else
	for a := 0; a < arms; a++ {
		n := &mj.Node{K: "if", E: g.cond(scope)}
		if len(hdrs) > 0 && g.n(0, 1, "condFromEarlierHeader") == 0 {
			n.E = mj.Var(hdrs[g.n(0, len(hdrs)-1, "earlierHeader")])
			g.labels["else-if-reads-variable-of-an-earlier-header"] = true
		}
		if g.n(0, 3, "iflet") == 0 {
			name := g.nextTag("h")
			if g.n(0, 2, "sharedHeaderName") == 0 {
				name = "hdr" // the same name in several links, and maybe further out: the innermost one counts
			}
			n.Hdr = &mj.Node{K: "let", Names: []string{name}, Es: []*mj.Expr{g.cond(scope)}, Decl: true}
			n.E = mj.Var(name)
			hdrs = append(hdrs, name)
			g.labels["if-let-header"] = true
		}
		n.Body = append([]*mj.Node{mj.Text(g.nextTag("«A") + "»")}, g.stmts(depth+1, scope)...)
		for _, h := range hdrs {
			n.Body = append(n.Body, mj.Text("("+h+":"), mj.Print(mj.Var(h)), mj.Text(")"))
		}
		if first == nil {
			first = n
		} else {
			n.ElseIf = true
			cur.HasElse = true
			cur.Else = []*mj.Node{n}
		}
		cur = n
	}
	if g.n(0, 1, "haselse") == 0 {
		cur.HasElse = true
		cur.Else = append([]*mj.Node{mj.Text(g.nextTag("«E") + "»")}, g.stmts(depth+1, scope)...)
		for _, h := range hdrs {
			cur.Else = append(cur.Else, mj.Text("("+h+":"), mj.Print(mj.Var(h)), mj.Text(")"))
		}
	}
	g.labels[fmt.Sprintf("if-arms:%d", arms)] = true
	return first
}

func (g *c05Gen) rangeStmt(depth int, scope []string) []*mj.Node {
	s := c05Subjects[g.n(0, len(c05Subjects)-1, "subject")]
	if (s.multi || s.once) && g.inMulti {
		// inside a multi-entry map range the iteration order is not defined: no nested
		// multiset and nothing that is consumed by ranging (channel, stateful ranger)
		s = c05Subjects[0]
	}
	var subject *mj.Expr
	if s.name == "ints" {
		from := g.n(-1, 2, "intsFrom")
		subject = mj.Call("ints", mj.Num(float64(from)), mj.Num(float64(from+g.n(1, 3, "intsLen"))))
	} else {
		subject = mj.Var(s.name)
	}
	form := g.n(0, 2, "vars")
	decl := g.n(0, 3, "decl") > 0
	n := &mj.Node{K: "range", E: subject, Decl: decl}
	var pre []*mj.Node
	var inner []string
	id := g.nextTag("")
	kn, vn := "k"+id, "v"+id
	// (not for the assigning form over a multi-entry map: the value left behind would depend on the iteration order)
	shared := g.n(0, 2, "sharedLoopNames") == 0 && !(s.multi && !decl)
	if shared {
		// the same names at every nesting level: an inner loop's variables shadow, they do not replace
		kn, vn = "k", "v"
		g.labels["loop-variable-names-reused-across-levels"] = true
	}
	switch form {
	case 1:
		n.Names = []string{kn}
	case 2:
		n.Names = []string{kn, vn}
	}
	discard := -1
	if form == 2 && g.n(0, 3, "discardSlot") == 0 {
		// '_' discards the key or the value, with := and with =; '.' keeps the parent context either way (two-variable form)
		discard = g.n(0, 1, "whichDiscard")
		n.Names[discard] = "_"
		g.labels[fmt.Sprintf("range-discard-slot:%d:decl=%v", discard, decl)] = true
	} else if form == 1 && g.n(0, 7, "discardOnly") == 0 {
		// the only variable is '_': nothing is bound ('.' is the element for rangers with an index, as in the one-variable form)
		discard = 0
		n.Names[0] = "_"
		g.labels[fmt.Sprintf("range-discard-only:decl=%v", decl)] = true
	}
	if !decl {
		for _, nm := range n.Names {
			if nm != "_" {
				pre = append(pre, mj.Let(nm, mj.Str("init")))
			}
		}
	}
	// what the body can see
	body := []*mj.Node{mj.Text("[")}
	switch form {
	case 0:
		inner = []string{"."}
		body = append(body, mj.Text(".="), mj.Print(mj.Dot()))
	case 1:
		inner = []string{}
		if discard != 0 {
			inner = append(inner, kn)
			body = append(body, mj.Text("1="), mj.Print(mj.Var(kn)))
		}
		if s.indexed || s.fails || discard == 0 {
			body = append(body, mj.Text(",.="), mj.Print(mj.Dot()))
			inner = append(inner, ".")
		}
	case 2:
		inner = []string{}
		if discard != 0 {
			inner = append(inner, kn)
			body = append(body, mj.Text("k="), mj.Print(mj.Var(kn)))
		}
		if discard != 1 {
			inner = append(inner, vn)
			body = append(body, mj.Text(",v="), mj.Print(mj.Var(vn)))
		}
		if discard >= 0 {
			inner = append(inner, ".")
			body = append(body, mj.Text(",.="), mj.Print(mj.Dot()))
		}
	}
	wasMulti := g.inMulti
	if s.multi {
		g.inMulti = true
		body[0] = mj.Text("⟦")
	}
	// conditions on the bound values through this binding form
	if g.n(0, 1, "condOnBinding") == 0 {
		b := inner[g.n(0, len(inner)-1, "whichBinding")]
		e := mj.Var(b)
		if b == "." {
			e = mj.Dot()
		}
		body = append(body, mj.If(e, []*mj.Node{mj.Text("?T")}, []*mj.Node{mj.Text("?F")}))
		g.labels["truthiness-of-binding:"+map[bool]string{true: "dot", false: fmt.Sprintf("var-form%d", form)}[b == "."]] = true
	}
	body = append(body, g.stmts(depth+1, append(append([]string{}, scope...), inner...))...)
	if shared {
		// ... and are themselves again once the inner statement has ended
		for _, nm := range inner {
			if nm != "." {
				body = append(body, mj.Text("(again "+nm+"="), mj.Print(mj.Var(nm)), mj.Text(")"))
			}
		}
	}
	if s.multi {
		body = append(body, mj.Text("⟧"))
	} else {
		body = append(body, mj.Text("]"))
	}
	g.inMulti = wasMulti
	n.Body = body
	if g.n(0, 1, "relse") == 0 {
		n.HasElse = true
		n.Else = []*mj.Node{mj.Text(g.nextTag("«none") + "»")}
	}
	g.labels[fmt.Sprintf("range:%s:vars%d:decl=%v", s.name, form, decl)] = true
	if s.fails {
		g.labels["range-error"] = true
	}
	return append(pre, n)
}

func (g *c05Gen) stmts(depth int, scope []string) []*mj.Node {
	if depth > 3 {
		return nil
	}
	var out []*mj.Node
	for k := g.n(0, 2, "nstmts"); k > 0; k-- {
		switch g.n(0, 3, "stmt") {
		case 0:
			if !g.inMulti && g.n(0, 11, "intsTwice") == 0 {
				// the value ints() returns is a cursor: a second range over the same value finds it used up
				id := g.nextTag("ir")
				from := g.n(-1, 2, "irFrom")
				out = append(out, mj.Let(id, mj.Call("ints", mj.Num(float64(from)), mj.Num(float64(from+g.n(1, 3, "irLen"))))))
				first := &mj.Node{K: "range", E: mj.Var(id), Body: []*mj.Node{mj.Text("["), mj.Print(mj.Dot()), mj.Text("]")}}
				// (how many elements a loop that is left early has taken from the cursor is left open)
				second := &mj.Node{K: "range", E: mj.Var(id), Names: []string{"k" + id, "v" + id}, Decl: true, Body: []*mj.Node{mj.Text("<"), mj.Print(mj.Var("k" + id)), mj.Text("="), mj.Print(mj.Var("v" + id)), mj.Text(">")}, HasElse: true, Else: []*mj.Node{mj.Text("(used up)")}}
				out = append(out, first, mj.Text("|"), second)
				g.labels["ints-value-ranged-twice"] = true
				continue
			}
			if !g.inMulti && g.n(0, 9, "heteroSubject") == 0 {
				// one range statement that meets rangers of different kinds, one after the other: what the single variable
				// holds (index or element) is decided by the value ranged over this time
				id := g.nextTag("h")
				x := "x" + id
				decl := g.n(0, 1, "heteroDecl") == 0
				inner := &mj.Node{K: "range", E: mj.Dot(), Names: []string{x}, Decl: decl, Body: []*mj.Node{mj.Text("("), mj.Print(mj.Var(x)), mj.Text(")")}, HasElse: true, Else: []*mj.Node{mj.Text("(none)")}}
				if !decl {
					out = append(out, mj.Let(x, mj.Str("before")))
				}
				hv := "hetero" + id
				g.p.Vars[hv] = mj.Recipe{T: "hetero", I: int64(g.n(0, 4, "heteroRotation"))}
				out = append(out, &mj.Node{K: "range", E: mj.Var(hv), Body: []*mj.Node{inner, mj.Text("|")}})
				g.labels["one-range-statement-over-rangers-of-different-kinds"] = true
				continue
			}
			if g.n(0, 11, "ifaceHeldSubject") == 0 {
				// collections in a slot of an interface type that has methods, and behind a pointer to an interface
				id := g.nextTag("q")
				field := []string{"Sorted", "PAny", "Counts", "Empty"}[g.n(0, 3, "ifaceHeldField")]
				out = append(out, &mj.Node{K: "range", E: mj.Chain(mj.Var("ih"), field), Names: []string{"k" + id, "v" + id}, Decl: true, Body: []*mj.Node{mj.Text("["), mj.Print(mj.Var("k" + id)), mj.Text("="), mj.Print(mj.Var("v" + id)), mj.Text("]")}, HasElse: true, Else: []*mj.Node{mj.Text("(none)")}})
				g.labels["range-over-a-collection-held-in-an-interface-with-methods:"+field] = true
				continue
			}
			if g.n(0, 11, "ifuncSubject") == 0 {
				// a rangeable value handed back by a function declared to return interface{}
				f := []string{"fz8", "fz9"}[g.n(0, 1, "ifuncRange")]
				out = append(out, &mj.Node{K: "range", E: mj.Call(f), Names: []string{"ki", "vi"}, Decl: true, Body: []*mj.Node{mj.Text("["), mj.Print(mj.Var("ki")), mj.Text(":"), mj.Print(mj.Var("vi")), mj.Text("]")}, HasElse: true, Else: []*mj.Node{mj.Text("(none)")}})
				g.labels["range-over-result-of-a-function-returning-interface{}"] = true
				continue
			}
			if !g.inMulti && g.n(0, 9, "longCollection") == 0 {
				// positions beyond the first few hundred of a long slice / array: index and element still belong together
				subj := []string{"long", "longa"}[g.n(0, 1, "longSubject")]
				id := g.nextTag("")
				kn, vn := "k"+id, "v"+id
				n := &mj.Node{K: "range", E: mj.Var(subj), Decl: g.n(0, 3, "longDecl") > 0, Names: []string{kn, vn}}
				body := []*mj.Node{mj.Text("["), mj.Print(mj.Var(kn)), mj.Text("="), mj.Print(mj.Var(vn)), mj.Text("]")}
				if g.n(0, 1, "longIndexOnly") == 0 {
					n.Names = []string{kn}
					body = []*mj.Node{mj.Text("["), mj.Print(mj.Var(kn)), mj.Text("]")}
				}
				n.Body = []*mj.Node{{K: "if", E: mj.Bin(">", mj.Var(kn), mj.Num(float64(g.n(250, 257, "longFrom")))), Body: body}}
				if !n.Decl {
					for _, nm := range n.Names {
						out = append(out, mj.Let(nm, mj.Num(0)))
					}
				}
				out = append(out, n)
				g.labels["range-over-more-than-256-elements:"+subj] = true
				continue
			}
			out = append(out, g.ifChain(depth, scope))
		case 1, 2:
			out = append(out, g.rangeStmt(depth, scope)...)
		default:
			if len(scope) > 0 {
				s := scope[g.n(0, len(scope)-1, "printscope")]
				if s == "." {
					out = append(out, mj.Text("(.:"), mj.Print(mj.Dot()), mj.Text(")"))
				} else {
					out = append(out, mj.Text("("+s+":"), mj.Print(mj.Var(s)), mj.Text(")"))
				}
			} else {
				out = append(out, mj.Text(g.nextTag("t")))
			}
		}
	}
	return out
}

func genC05(t *rapid.T) c05Case {
	g := &c05Gen{t: t, p: &mj.Program{Entry: "/main.jet", Vars: c05Vars()}, labels: map[string]bool{}}
	d := mj.RStr("CTX")
	g.p.Data = &d
	body := []*mj.Node{mj.Text("<")}
	switch g.n(0, 2, "top") {
	case 0:
		body = append(body, g.ifChain(0, nil))
	case 1:
		body = append(body, g.rangeStmt(0, nil)...)
	default:
		body = append(body, g.stmts(0, nil)...)
		body = append(body, g.rangeStmt(0, nil)...)
	}
	body = append(body, mj.Text("|ctx="), mj.Print(mj.Dot()), mj.Text(">"))
	g.p.Files = []*mj.File{{Path: "/main.jet", Body: body}}
	if g.n(0, 4, "earlyExit") == 0 {
		// before anything else a helper template leaves a range early (return in its first iteration):
		// the loops that follow still run once per element, or take their else branch, as if nothing had happened
		subj := []string{"mN", "miN", "many", "xs", "ss", "arr"}[g.n(0, 5, "earlyExitSubject")]
		g.p.Files = append(g.p.Files, &mj.File{Path: "/first.jet", Body: []*mj.Node{{K: "range", Names: []string{"fk", "fv"}, Decl: true, E: mj.Var(subj), Body: []*mj.Node{{K: "return", E: mj.Str("found")}}}}})
		g.p.Files[0].Body = append([]*mj.Node{mj.Let("found", mj.Call("exec", mj.Str("/first.jet")))}, body...)
		g.labels["after-a-range-left-by-return:"+subj] = true
	}
	c := c05Case{Prog: g.p}
	c.Src = mj.NewPrinter().File(g.p.Files[0])
	if len(g.p.Files) > 1 {
		c.Src += "   with /first.jet: " + mj.NewPrinter().File(g.p.Files[1])
	}
	mj.PruneVars(g.p)
	for k := range g.labels {
		c.Labels = append(c.Labels, k)
	}
	sort.Strings(c.Labels)
	return c
}

// canonMulti sorts each run of adjacent ⟦…⟧ chunks (iterations of a multi-entry map range).
func canonMulti(s string) string {
	var out strings.Builder
	i := 0
	for i < len(s) {
		if !strings.HasPrefix(s[i:], "⟦") {
			out.WriteByte(s[i])
			i++
			continue
		}
		var group []string
		for strings.HasPrefix(s[i:], "⟦") {
			j := strings.Index(s[i:], "⟧")
			if j < 0 {
				group = append(group, s[i:])
				i = len(s)
				break
			}
			j += i + len("⟧")
			group = append(group, s[i:j])
			i = j
		}
		sort.Strings(group)
		out.WriteString(strings.Join(group, ""))
	}
	return out.String()
}

// structural features for the non-triviality rule
func c05Shape(ns []*mj.Node, depthRange int, sh map[string]bool) {
	for _, n := range ns {
		switch n.K {
		case "range":
			if depthRange >= 1 {
				sh["nested-range"] = true
			}
			if n.HasElse {
				sh["range-else"] = true
			}
			c05Shape(n.Body, depthRange+1, sh)
			c05Shape(n.Else, depthRange, sh)
		case "if":
			if n.HasElse {
				sh["if-else"] = true
			}
			c05Shape(n.Body, depthRange, sh)
			c05Shape(n.Else, depthRange, sh)
		}
	}
}

func judgeC05(c c05Case) (v core.Verdict) {
	want, discard := mj.ModelRun(c.Prog, nil)
	if discard != "" {
		v.Discard = "model:" + discard
		return
	}
	// a loop that never ends is a violation too: the engine runs on a goroutine of its own and gets a minute for
	// what takes microseconds (after a violation the run is over, so the goroutine left behind does not matter)
	var got jetrun.Outcome
	var src map[string]string
	finished := make(chan struct{})
	go func() { defer close(finished); got, _, src = mj.EngineRun(c.Prog, nil) }()
	select {
	case <-finished:
	case <-time.After(time.Minute):
		v.Failf("template %q: Execute has not returned after a minute (the reference interpreter renders %q)", c.Src, want.Out)
		return
	}
	sh := map[string]bool{}
	c05Shape(c.Prog.Files[0].Body, 0, sh)
	for k := range sh {
		v.Label(k)
	}
	v.Label(c.Labels...)
	v.NonTrivial = sh["nested-range"] || sh["range-else"] || sh["if-else"]
	desc := fmt.Sprintf("template %q", src["/main.jet"])
	if got.Panicked {
		v.Failf("%s: Execute panicked: %s (model: %v / %q)", desc, got.PanicVal, want.Err, want.Out)
		return
	}
	if want.Err != nil {
		v.Label("expect-error:" + want.Err.Class)
		if got.Err == nil {
			v.Failf("%s: must fail (%s) but rendered %q", desc, want.Err.Msg, got.Out)
		}
		return
	}
	if got.Err != nil {
		v.Failf("%s: failed with %v; the model renders %q", desc, got.Err, want.Out)
		return
	}
	if canonMulti(got.Out) != canonMulti(want.Out) {
		v.Failf("%s:\n got  %q\n want %q", desc, got.Out, want.Out)
	}
	return
}

func TestC05(t *testing.T) {
	core.Run(t, "C05",
		"nested if/else-if/else chains (1-4 arms, optional ':=' header whose variable later links and the final else read) and ranges (depth<=3; zero/one/two variables; ':=' and '=') over typed and interface slices, arrays, pointers, maps (string/int keys; multi-entry maps compared as multisets of per-entry renderings), closed channels (also receive-only), slices and arrays of more than 256 elements, ints(a,b) (also one value ranged twice: a cursor), maps with a NaN key, rangeables and conditions handed back by functions declared to return interface{}, index-providing and index-less custom Rangers, empty/nil variants and non-rangeables; conditions over bool/int/uint/float kinds at 0 and non-0, strings, nil, nil and non-nil pointers/maps/slices, structs, and over loop bindings in every form; also: a custom Ranger whose pointer receiver tolerates nil, as a typed nil pointer and with elements; round 10: one range statement that meets rangers of different kinds one after the other (a list holding a slice, channels, custom Rangers, a map, an array); collections in slots of interface types that have methods (sort.Interface, fmt.Stringer) and behind *interface{}; round 11: conditions that are slots of interface types with methods (error, fmt.Stringer) holding a struct without fields; oracle = MiniJet reference interpreter (the engine runs under a one-minute watchdog: a loop that never ends is a violation); non-trivial = nested range, or a range/if with an else branch",
		genC05, judgeC05)
}

func TestC05Replay(t *testing.T) { core.Replay(t, "C05", judgeC05) }
