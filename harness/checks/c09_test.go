package checks

// C09 — include renders in place with the caller's variables and blocks and
// leaks nothing back; exec discards all output and evaluates to the value of
// the last return executed; includeIfExists behaves like include when the
// template exists and is falsy (rendering nothing) when it does not.

import (
	"fmt"
	"reflect"
	"sort"
	"strings"
	"testing"

	"jetverif/core"
	"jetverif/mj"

	"github.com/CloudyKit/jet/v6"

	"pgregory.net/rapid"
)

type c09Case struct {
	Prog   *mj.Program `json:"prog"`
	Src    []string    `json:"src"`
	Labels []string    `json:"labels,omitempty"`
}

type c09Gen struct {
	t      *rapid.T
	p      *mj.Program
	uniq   int
	labels map[string]bool
}

func (g *c09Gen) n(lo, hi int, l string) int { return rapid.IntRange(lo, hi).Draw(g.t, l) }
func (g *c09Gen) id(p string) string         { g.uniq++; return fmt.Sprintf("%s%d", p, g.uniq) }
func (g *c09Gen) addFile(f *mj.File)         { g.p.Files = append(g.p.Files, f) }

// returns(): statements that execute `return` at a generated position.
func (g *c09Gen) returns(depth int, allowInclude bool) []*mj.Node {
	val := func() *mj.Expr {
		if g.n(0, 7, "retTypedNil") == 0 {
			// a nil slice / nil map is a value (it prints as [] / map[], has a length): not the same as no value
			nm := []string{"rnilxs", "rnilm"}[g.n(0, 1, "retTypedNilKind")]
			g.p.Vars[nm] = mj.Recipe{T: map[string]string{"rnilxs": "nil[]int", "rnilm": "nilmap"}[nm]}
			g.labels["return-of-a-typed-nil"] = true
			return mj.Var(nm)
		}
		if g.n(0, 2, "retnum") == 0 {
			return mj.Num(float64(g.n(1, 9, "retnumv")))
		}
		return mj.Str(g.id("R"))
	}
	ret := func() *mj.Node { return &mj.Node{K: "return", E: val()} }
	k := g.n(0, 12, "retpos")
	g.labels[fmt.Sprintf("return-position:%d", k)] = true
	switch k {
	case 0: // none
		return []*mj.Node{mj.Text("(no return)")}
	case 1: // top level
		return []*mj.Node{mj.Text("out-before-return"), ret(), mj.Text("out-after-return")}
	case 2: // several: the last one executed counts
		return []*mj.Node{ret(), mj.Text("x"), ret(), mj.If(mj.Bool(false), []*mj.Node{ret()}, nil), mj.Text("y")}
	case 3: // in if (taken / not taken), followed by statements that return nothing
		return []*mj.Node{mj.If(mj.Bool(g.n(0, 1, "iftaken") == 0), []*mj.Node{ret()}, []*mj.Node{mj.Text("else")}), mj.If(mj.Bool(true), []*mj.Node{mj.Text("later-if")}, nil), mj.Text("tail")}
	case 4: // in range: the loop stops after the iteration that returned
		rn := &mj.Node{K: "range", Names: []string{g.id("ri")}, Decl: true, E: mj.Call("ints", mj.Num(0), mj.Num(3))}
		rn.Body = []*mj.Node{mj.Text("it"), mj.If(mj.Bin("==", mj.Var(rn.Names[0]), mj.Num(float64(g.n(0, 2, "retiter")))), []*mj.Node{ret()}, nil)}
		// what follows the loop runs with the context and the variables of before the loop
		return []*mj.Node{rn, mj.Text("after-range(.="), mj.Print(mj.Dot()), mj.Text(")(loop variable still set:"), mj.Print(mj.Call("isset", mj.Var(rn.Names[0]))), mj.Text(")")}
	case 5: // in try (succeeding) and in a caught try
		if g.n(0, 1, "trykind") == 0 {
			return []*mj.Node{{K: "try", Body: []*mj.Node{ret(), mj.Text("in-try")}}, mj.Text("after-try")}
		}
		return []*mj.Node{{K: "try", Body: []*mj.Node{{K: "fail", Src: "noSuchName", Class: "unknown-identifier"}}, HasCatch: true, Catch: []*mj.Node{ret()}}, mj.Text("after-catch")}
	case 6: // return, then a range and an include-free tail that return nothing
		return []*mj.Node{ret(), {K: "range", E: mj.Call("ints", mj.Num(0), mj.Num(2)), Body: []*mj.Node{mj.Text("r")}}, {K: "try", Body: []*mj.Node{mj.Text("t")}}, mj.Text("tail")}
	case 9: // in the body of a block rendered where it is defined, or yielded by name
		name := g.id("retblk")
		def := &mj.Node{K: "block", Name: name, Body: []*mj.Node{mj.Text("in-block"), ret(), mj.Text("still-in-block")}}
		if g.n(0, 1, "retBlockYielded") == 0 {
			return []*mj.Node{def, mj.Text("between"), {K: "yield", Name: name}, mj.Text("after-yield")}
		}
		return []*mj.Node{def, mj.Text("after-block")}
	case 10: // in the content handed to a block that yields it
		name := g.id("retwrap")
		return []*mj.Node{{K: "block", Name: name, Body: []*mj.Node{mj.Text("(wrap:"), {K: "ycontent"}, mj.Text(":wrap)")}, HasCont: true, Content: []*mj.Node{mj.Text("default-content")}},
			{K: "yield", Name: name, HasCont: true, Content: []*mj.Node{mj.Text("content-with-return"), ret()}}, mj.Text("after-content")}
	case 11: // a value, then nil: the last return executed counts, whatever it was given
		return []*mj.Node{ret(), mj.Text("between-returns"), {K: "return", E: mj.Nil()}, mj.Text("after-return-nil")}
	case 12: // the same with the `return nil` below another construct
		rnil := &mj.Node{K: "return", E: mj.Nil()}
		var nested *mj.Node
		switch g.n(0, 5, "nilReturnBelow") {
		case 0:
			nested = mj.If(mj.Bool(true), []*mj.Node{rnil}, nil)
		case 1: // (the loop is over after the iteration that returned)
			nested = &mj.Node{K: "range", E: mj.Call("ints", mj.Num(0), mj.Num(3)), Body: []*mj.Node{mj.Text("it"), rnil}}
		case 2:
			nested = &mj.Node{K: "try", Body: []*mj.Node{rnil, mj.Text("in-try")}}
		case 3:
			nested = &mj.Node{K: "block", Name: g.id("nilblk"), Body: []*mj.Node{mj.Text("in-block"), rnil}}
		case 4:
			name := g.id("nilwrap")
			return []*mj.Node{ret(), {K: "block", Name: name, Body: []*mj.Node{mj.Text("(wrap:"), {K: "ycontent"}, mj.Text(":wrap)")}, HasCont: true, Content: []*mj.Node{mj.Text("default-content")}},
				{K: "yield", Name: name, HasCont: true, Content: []*mj.Node{mj.Text("content-with-return-nil"), rnil}}, mj.Text("after-content")}
		default:
			sub := &mj.File{Path: "/" + g.id("nilsub") + ".jet", Body: []*mj.Node{mj.Text("sub:"), rnil}}
			g.addFile(sub)
			nested = &mj.Node{K: "include", E: mj.Str(sub.Path)}
		}
		return []*mj.Node{ret(), mj.Text("between-returns"), nested, mj.Text("after-nested-return-nil")}
	case 7: // return nil only
		return []*mj.Node{{K: "return", E: mj.Nil()}, mj.Text("after-return-nil")}
	default: // inside an included sub-template
		if !allowInclude || depth > 1 {
			return []*mj.Node{ret()}
		}
		sub := &mj.File{Path: "/" + g.id("retsub") + ".jet", Body: append([]*mj.Node{mj.Text("sub:")}, g.returns(depth+1, false)...)}
		g.addFile(sub)
		inc := &mj.Node{K: "include", E: mj.Str(sub.Path)}
		if g.n(0, 1, "retIncludeCtx") == 0 {
			inc.Ctx = mj.Str(g.id("retctx"))
			g.labels["return-through-include-with-context"] = true
		}
		return []*mj.Node{inc, mj.Text("after-include")}
	}
}

// callee builds a template to be included / executed; returns its canonical path.
func (g *c09Gen) callee(dir string, withReturn bool) (string, string) {
	name := g.id("callee")
	path := dir + name + ".jet"
	lv := g.id("calleeVar")
	body := []*mj.Node{mj.Text("[" + name + ":")}
	body = append(body, mj.Let(lv, mj.Str("local-of-"+name)))
	body = append(body, mj.Text("(caller var:"), mj.Print(mj.Var("cv")), mj.Text(")(.="), mj.Print(mj.Dot()), mj.Text(")"))
	if g.n(0, 1, "calleeRebind") == 0 {
		g.labels["callee-rebinds-context"] = true
		body = append(body, &mj.Node{K: "range", E: mj.Call("slice", mj.Str("e1"), mj.Str("e2")), Body: []*mj.Node{mj.Text("<"), mj.Print(mj.Dot()), mj.Text(">")}})
	}
	if g.n(0, 2, "calleeSafeWriter") == 0 {
		// output that goes through a SafeWriter command is output like any other: in place for include, discarded by exec
		g.labels["callee-prints-through-safewriter"] = true
		w := []string{"raw", "unsafe", "safeHtml"}[g.n(0, 2, "calleeWriter")]
		body = append(body, mj.Text("(sw:"), mj.Print(mj.Pipe(mj.Str("<"+w+"&>"), w)), mj.Text(")"))
	}
	if g.n(0, 1, "calleeBlock") == 0 {
		g.labels["callee-defines-block"] = true
		body = append(body, &mj.Node{K: "block", Name: g.id("calleeBlk"), Body: []*mj.Node{mj.Text("{callee block}")}})
	}
	if g.n(0, 1, "calleeYieldsCallerBlock") == 0 {
		g.labels["callee-yields-caller-block"] = true
		body = append(body, &mj.Node{K: "yield", Name: "callerBlock"})
	}
	if g.n(0, 2, "calleeSetsCallerVar") == 0 {
		g.labels["callee-assigns-caller-var"] = true
		body = append(body, mj.Set("cv", mj.Str("cv-set-by-"+name)))
	}
	var rets []*mj.Node
	if withReturn {
		rets = g.returns(0, true)
	}
	f := &mj.File{Path: path}
	switch g.n(0, 3, "calleeChain") {
	case 0: // callee extends a one-level layout
		g.labels["callee-extends-1"] = true
		// a return inside a block body is not generated (whether it counts is not specified): returns live in the layout
		body = append(body, mj.Text(":"+name+"]"))
		base := &mj.File{Path: dir + g.id("base") + ".jet", Body: append([]*mj.Node{mj.Text("{layout1:"), {K: "block", Name: "slot", Body: []*mj.Node{mj.Text("default-slot")}}}, append(rets, mj.Text(":layout1}"))...)}
		g.addFile(base)
		f.Extends = base.Path
		f.Body = []*mj.Node{{K: "block", Name: "slot", Body: body}}
	case 1: // callee extends a two-level chain: the root ancestor's body must be rendered
		g.labels["callee-extends-2"] = true
		body = append(body, mj.Text(":"+name+"]"))
		root := &mj.File{Path: dir + g.id("root") + ".jet", Body: append([]*mj.Node{mj.Text("{root-layout:"), {K: "block", Name: "slot", Body: []*mj.Node{mj.Text("default-slot")}}}, append(rets, mj.Text(":root-layout}"))...)}
		mid := &mj.File{Path: dir + g.id("mid") + ".jet", Extends: root.Path, Body: []*mj.Node{mj.Text("mid junk"), {K: "block", Name: "other", Body: []*mj.Node{mj.Text("unused")}}}}
		g.addFile(root)
		g.addFile(mid)
		f.Extends = mid.Path
		f.Body = []*mj.Node{{K: "block", Name: "slot", Body: body}}
	default:
		body = append(body, rets...)
		f.Body = append(body, mj.Text(":"+name+"]"))
	}
	g.addFile(f)
	return path, lv
}

// spell returns a way to write path from a template in dir (for include) or from the root (exec).
func (g *c09Gen) spell(path, dir string, relativeToDir bool) *mj.Expr {
	base := path[len(dir):]
	switch g.n(0, 3, "spelling") {
	case 0:
		return mj.Str(path)
	case 1:
		if relativeToDir {
			return mj.Str("./" + base)
		}
		return mj.Str(path[1:]) // relative to the root
	case 2:
		nm := g.id("nm")
		g.p.Vars[nm] = mj.RStr(base)
		return mj.Bin("+", mj.Str(dir), mj.Var(nm))
	default:
		if relativeToDir && dir != "/" {
			segs := strings.Split(strings.Trim(dir, "/"), "/")
			return mj.Str("../" + segs[len(segs)-1] + "/" + base)
		}
		return mj.Str(path)
	}
}

func (g *c09Gen) callSite(dir string) []*mj.Node {
	var out []*mj.Node
	leak := "cv"
	ctx := func() *mj.Expr {
		if g.n(0, 1, "withctx") == 0 {
			g.labels["explicit-context"] = true
			if g.n(0, 3, "nilctx") == 0 {
				// a context that is given but has no value: it is still the context, not "none given"
				g.labels["explicit-context-without-value"] = true
				g.p.Vars["nomap"] = mj.Recipe{T: "nilmap"}
				return mj.Var("nomap")
			}
			return mj.Str(g.id("ctx"))
		}
		return nil
	}
	switch k := g.n(0, 8, "callkind"); {
	case k <= 2:
		g.labels["call:include"] = true
		p, lv := g.callee(dir, g.n(0, 2, "includeWithReturn") == 0)
		leak = lv
		name := g.spell(p, dir, true)
		if g.n(0, 5, "nameSaysItself") == 0 {
			// the name is a value that is no string but says what it is called (fmt.Stringer): a struct, or a
			// defined type of kind string whose String method does not return the string it is made of
			nm := g.id("sn")
			g.p.Vars[nm] = mj.Recipe{T: []string{"stringer", "kindstringer"}[g.n(0, 1, "stringerKind")], S: p}
			name = mj.Var(nm)
			g.labels["include-name:"+g.p.Vars[nm].T] = true
		}
		inc := &mj.Node{K: "include", E: name, Ctx: ctx()}
		if inc.Ctx != nil && g.n(0, 2, "nameAndContextFromDot") == 0 {
			// name and context are both read from the '.' the include statement stands in (a row that carries its
			// template and its data): the name is not looked for in the context that is handed over
			row := mj.Call("map", mj.Str("Tpl"), inc.E, mj.Str("Data"), inc.Ctx, mj.Str("Other"), mj.Call("map", mj.Str("Tpl"), mj.Str("/no/such.jet")))
			inc.E, inc.Ctx = mj.Field("Tpl"), []*mj.Expr{mj.Field("Data"), mj.Field("Other")}[g.n(0, 1, "rowContextField")]
			inc = &mj.Node{K: "range", E: mj.Call("slice", row), Body: []*mj.Node{inc}}
			g.labels["include-name-and-context-from-dot"] = true
		}
		out = append(out, inc)
	case k <= 5:
		g.labels["call:exec"] = true
		p, lv := g.callee(dir, true)
		leak = lv
		args := []*mj.Expr{g.spell(p, dir, false)}
		if c := ctx(); c != nil {
			args = append(args, c)
		}
		v := g.id("ex")
		if g.n(0, 1, "execform") == 0 {
			out = append(out, mj.Let(v, mj.Call("exec", args...)), mj.Text("(exec value:"), mj.Print(mj.Var(v)), mj.Text(")"))
		} else {
			out = append(out, mj.Text("(exec value:"), mj.Print(mj.Call("exec", args...)), mj.Text(")"))
		}
	case k == 6:
		g.labels["call:includeIfExists-existing"] = true
		p, lv := g.callee(dir, false)
		leak = lv
		args := []*mj.Expr{g.spell(p, dir, false)}
		if c := ctx(); c != nil {
			args = append(args, c)
		}
		if g.n(0, 1, "iieAsCond") == 0 {
			out = append(out, mj.If(mj.Call("includeIfExists", args...), []*mj.Node{mj.Text("(existed)")}, []*mj.Node{mj.Text("(missing)")}))
		} else {
			out = append(out, mj.Print(mj.Call("includeIfExists", args...)))
		}
	case k == 7:
		g.labels["call:includeIfExists-missing"] = true
		args := []*mj.Expr{mj.Str("/no/such/" + g.id("tpl"))}
		if c := ctx(); c != nil {
			args = append(args, c)
		} else if g.n(0, 1, "contextThatCannotBeEvaluated") == 0 {
			// a context expression that fails when evaluated - which it is not, for a template that is not there
			g.p.Vars["nomap"] = mj.Recipe{T: "nilmap"}
			args = append(args, []*mj.Expr{mj.Chain(mj.Var("nomap"), "k", "deeper"), mj.Var("noSuchContextVariable"), mj.Call("pick")}[g.n(0, 1, "badContext")])
			g.labels["includeIfExists-missing-with-a-context-that-would-fail"] = true
		}
		if g.n(0, 1, "iieAsCond") == 0 {
			out = append(out, mj.If(mj.Call("includeIfExists", args...), []*mj.Node{mj.Text("(existed)")}, []*mj.Node{mj.Text("(missing)")}))
		} else {
			out = append(out, mj.Print(mj.Call("includeIfExists", args...)))
		}
	default:
		g.labels["call:includeIfExists-broken"] = true
		f := &mj.File{Path: dir + g.id("broken") + ".jet", Broken: true}
		g.addFile(f)
		out = append(out, mj.Print(mj.Call("includeIfExists", mj.Str(f.Path))))
	}
	// probes: nothing leaked, context as before
	out = append(out, mj.Text("(cv="), mj.Print(mj.Var("cv")), mj.Text(")(.="), mj.Print(mj.Dot()), mj.Text(")(leak:"), mj.Print(mj.Call("isset", mj.Var(leak))), mj.Text(")"))
	return out
}

func (g *c09Gen) wrapSite(dir string, depth int) []*mj.Node {
	if depth <= 0 {
		return g.callSite(dir)
	}
	inner := g.wrapSite(dir, depth-1)
	switch g.n(0, 4, "wrap") {
	case 0:
		g.labels["site-in-range"] = true
		return []*mj.Node{{K: "range", Names: []string{g.id("wi")}, Decl: true, E: mj.Call("ints", mj.Num(0), mj.Num(2)), Body: append([]*mj.Node{mj.Text("[")}, append(inner, mj.Text("]"))...)}, mj.Text("(.="), mj.Print(mj.Dot()), mj.Text(")")}
	case 1:
		g.labels["site-in-block"] = true
		return []*mj.Node{{K: "block", Name: g.id("wb"), Ctx: mj.Str(g.id("blockctx")), Body: inner}, mj.Text("(.="), mj.Print(mj.Dot()), mj.Text(")")}
	case 2:
		g.labels["site-in-try"] = true
		return []*mj.Node{{K: "try", Body: inner}}
	case 3:
		g.labels["site-in-include"] = true
		f := &mj.File{Path: dir + g.id("via") + ".jet", Body: inner}
		g.addFile(f)
		return []*mj.Node{{K: "include", E: mj.Str(f.Path)}}
	default:
		g.labels["site-in-range-rebinding-context"] = true
		return []*mj.Node{{K: "range", E: mj.Call("slice", mj.Str("x1"), mj.Str("x2")), Body: append([]*mj.Node{mj.Text("[")}, append(inner, mj.Text("]"))...)}, mj.Text("(.="), mj.Print(mj.Dot()), mj.Text(")")}
	}
}

func genC09(t *rapid.T) c09Case {
	g := &c09Gen{t: t, labels: map[string]bool{}}
	g.p = &mj.Program{Entry: "/main.jet", Vars: map[string]mj.Recipe{}}
	if g.n(0, 3, "nilctx") > 0 {
		d := mj.RStr("CTX")
		g.p.Data = &d
	} else {
		g.labels["caller-without-context"] = true // Execute with nil data
	}
	dir := []string{"/", "/d1/", "/d1/d2/"}[g.n(0, 2, "dir")]
	caller := &mj.File{Path: dir + "caller.jet"}
	main := &mj.File{Path: "/main.jet", Body: []*mj.Node{mj.Text("<main>"), {K: "include", E: mj.Str(caller.Path)}, mj.Text("</main>")}}
	g.p.Files = []*mj.File{main, caller}
	body := []*mj.Node{mj.Let("cv", mj.Str("cv0")), {K: "block", Name: "callerBlock", Body: []*mj.Node{mj.Text("{caller block}")}}}
	for k := g.n(1, 3, "nsites"); k > 0; k-- {
		depth := g.n(0, 3, "sitedepth")
		if depth >= 2 {
			g.labels["site-depth>=2"] = true
		}
		body = append(body, g.wrapSite(dir, depth)...)
		body = append(body, mj.Text("|"))
	}
	if g.n(0, 5, "recursiveInclude") == 0 {
		// a template that includes itself (by relative name) until a counter of the caller runs out
		g.addFile(&mj.File{Path: dir + "rec.jet", Body: []*mj.Node{mj.If(mj.Bin(">", mj.Var("depthLeft"), mj.Num(0)),
			[]*mj.Node{mj.Text("("), mj.Print(mj.Var("depthLeft")), mj.Set("depthLeft", mj.Bin("-", mj.Var("depthLeft"), mj.Num(1))), {K: "include", E: mj.Str([]string{"rec.jet", "./rec.jet", dir + "rec.jet"}[g.n(0, 2, "recSpelling")])}, mj.Text(")")}, nil)}})
		body = append(body, mj.Let("depthLeft", mj.Num(float64(g.n(1, 3, "recDepth")))), mj.Text("{rec:"), &mj.Node{K: "include", E: mj.Str(dir + "rec.jet")}, mj.Text("}"))
		g.labels["template-including-itself"] = true
	}
	if g.n(0, 39, "manyIncludes") == 0 {
		// one loop, one scope, a thousand and more includes one after the other: each is a call that has returned
		// before the next begins, however many there are (nesting is what has a depth, not repetition)
		g.addFile(&mj.File{Path: dir + "row.jet", Body: []*mj.Node{mj.Text("r")}})
		body = append(body, mj.Text("{rows:"), &mj.Node{K: "range", E: mj.Call("ints", mj.Num(0), mj.Num(float64(g.n(1001, 1030, "rows")))), Body: []*mj.Node{{K: "include", E: mj.Str(dir + "row.jet")}}}, mj.Text("}(.="), mj.Print(mj.Dot()), mj.Text(")"))
		g.labels["more-than-1000-includes-in-a-row"] = true
	}
	g.p.Dev = g.n(0, 3, "devMode") == 0
	if g.p.Dev {
		g.labels["development-mode"] = true
	}
	usePick := g.n(0, 5, "pick") == 0
	if usePick {
		// the name handed to exec is computed by a function that answers differently every time it is asked:
		// the argument is evaluated once, so it is the first answer that is executed
		g.addFile(&mj.File{Path: "/pk/first.jet", Body: []*mj.Node{mj.Text("first output"), {K: "return", E: mj.Str("FIRST")}}})
		g.addFile(&mj.File{Path: "/pk/later.jet", Body: []*mj.Node{mj.Text("later output"), {K: "return", E: mj.Str("LATER")}}})
		site := []*mj.Node{mj.Text("{picked:"), mj.Print(mj.Call("exec", mj.Call("pick"))), mj.Text("}")}
		if g.n(0, 1, "pickWithContext") == 0 {
			site = []*mj.Node{mj.Text("{picked:"), mj.Print(mj.Call("exec", mj.Call("pick"), mj.Str("pickctx"))), mj.Text("}")}
		}
		body = append(body, site...)
		g.labels["exec-of-a-name-computed-by-a-stateful-function"] = true
	}
	caller.Body = body
	if !usePick && g.n(0, 3, "late") == 0 {
		// some callees appear only after the set has already been used once
		for _, f := range g.p.Files[2:] {
			if g.n(0, 1, "isLate") == 0 {
				g.p.Late = append(g.p.Late, f.Path)
			}
		}
		if len(g.p.Late) > 0 {
			g.labels["callees-created-after-a-first-execution"] = true
		}
	}
	if !usePick && len(g.p.Late) == 0 && !g.p.Dev && g.n(0, 3, "gone") == 0 {
		// some callees disappear from the loader after the set has used them once: what it has loaded it has
		for _, f := range g.p.Files[2:] {
			if strings.Contains(f.Path, "broken") {
				continue // (what could not be parsed is not remembered: afterwards it is missing, not unparsable)
			}
			if g.n(0, 1, "isGone") == 0 {
				g.p.Gone = append(g.p.Gone, f.Path)
			}
		}
		if len(g.p.Gone) > 0 {
			g.labels["callees-deleted-from-the-loader-after-a-first-execution"] = true
		}
	}
	c := c09Case{Prog: g.p}
	src := mj.NewPrinter().Sources(g.p)
	var paths []string
	for p := range src {
		paths = append(paths, p)
	}
	sort.Strings(paths)
	for _, p := range paths {
		c.Src = append(c.Src, p+": "+src[p])
	}
	for k := range g.labels {
		c.Labels = append(c.Labels, k)
	}
	sort.Strings(c.Labels)
	return c
}

func judgeC09(c c09Case) (v core.Verdict) {
	// pick(): "/pk/first.jet" the first time it is called in an execution, "/pk/later.jet" from then on
	modelCalls, engineCalls := 0, 0
	pickName := func(n *int) string {
		*n++
		if *n == 1 {
			return "/pk/first.jet"
		}
		return "/pk/later.jet"
	}
	want, discard := mj.ModelRun(c.Prog, func(in *mj.Interp) {
		in.Funcs["pick"] = func(*mj.Interp, []interface{}) interface{} { return pickName(&modelCalls) }
	})
	if discard != "" {
		v.Discard = "model:" + discard
		return
	}
	got, _, _ := mj.EngineRun(c.Prog, map[string]jet.Func{"pick": func(jet.Arguments) reflect.Value { return reflect.ValueOf(pickName(&engineCalls)) }})
	v.Label(c.Labels...)
	lab := map[string]bool{}
	for _, l := range c.Labels {
		lab[l] = true
	}
	v.NonTrivial = lab["site-depth>=2"] && (lab["callee-rebinds-context"] || lab["call:exec"] || lab["explicit-context"])
	desc := fmt.Sprintf("template set %q", c.Src)
	if got.Panicked {
		v.Failf("%s: Execute panicked: %s", desc, got.PanicVal)
		return
	}
	if want.Err != nil {
		v.Label("expect-error:" + want.Err.Class)
		if got.Err == nil {
			v.Failf("%s: must fail (%s) but rendered %q", desc, want.Err.Msg, got.Out)
		}
		return
	}
	if got.Err != nil {
		v.Failf("%s: failed with %v; the model renders %q", desc, got.Err, want.Out)
		return
	}
	if got.Out != want.Out {
		v.Failf("%s:\n got  %q\n want %q", desc, got.Out, want.Out)
	}
	return
}

func TestC09(t *testing.T) {
	core.Run(t, "C09",
		"template sets with files in nested directories: call sites of include (absolute, ./ and ../ relative, computed names, name and context both read from the dot of a range, names that are fmt.Stringers of struct and of string kind; with/without context), exec (with/without context; callee with return at every position: none, top, several, in if, in range, in try/catch, in a block body, in yield content, followed by statements that return nothing, return nil, inside an included sub-template) and includeIfExists (existing, missing - also with a context expression that would fail if evaluated -, unparsable; as statement and as condition), placed at depth 0-3 inside range / block / try / other includes; callees extend 0-2 levels, declare variables, rebind '.', define blocks, yield the caller's blocks, assign the caller's variables; probes after every call site; exec of a name computed by a function that answers differently on every call; one case in forty with more than 1000 includes in one loop; one case in four with some callee files created only after a first execution of the set; also: `return nil` after a return with a value, directly in the list and below if / range / try / block / yield content / include; '.' and the loop variable after a range that returned; round 10: returns of typed nils (nil slice, nil map); callee files deleted from the loader after a first execution; oracle = MiniJet reference interpreter; non-trivial = call site at depth>=2 with a callee that rebinds '.' / an exec / an explicit context",
		genC09, judgeC09)
}

func TestC09Replay(t *testing.T) { core.Replay(t, "C09", judgeC09) }
