package checks

// Coverage-guided variants of the checks (thorough tier): Go's native fuzzer mutates the stream of
// generator decisions; generator and oracle are the ones the rapid-driven test uses. C10 (needs
// GOMAXPROCS(1) and a stopped GC) and C11 (needs the race detector) have none.

import (
	"os"
	"path/filepath"
	"testing"

	"jetverif/core"
	"jetverif/jetrun"
)

// ---- byte-level targets: the fuzzed bytes are the template source itself ----

var fuzzDelims = []jetrun.Delims{
	{}, {}, {},
	{Left: "[[", Right: "]]"},
	{Left: "<%", Right: "%>", CLeft: "<#", CRight: "#>"},
	{Left: "<", Right: ">", CLeft: "{#", CRight: "#}"},
	{Left: "{{{", Right: "}}}"},
	{Left: "@@", Right: "@@", CLeft: "#", CRight: "#"},
	{Left: "${", Right: "}", CLeft: "{{*", CRight: "*}}"},
	{Left: "«", Right: "»", CLeft: "<!", CRight: "!>"},
	{Left: "[[", Right: "]]", CLeft: "[*", CRight: "*]", CommentFirst: true},
	{Left: "<%", Right: "%>", CLeft: "¡", CRight: "!", CommentFirst: true},
}

func addSourceSeeds(f *testing.F) {
	files, _ := filepath.Glob(filepath.Join(core.Root(), "harness", "checks", "testdata", "jetseeds", "*"))
	for i, p := range files {
		if b, err := os.ReadFile(p); err == nil {
			f.Add(string(b), uint8(0))
			if i%5 == 0 {
				f.Add(string(b), uint8(16)) // through GetTemplate
			}
		}
	}
	for _, s := range []string{"", "{{", "{{-", "{*", "{{\"", "{{`", "{{'", "{{ & }}", "{{ _é }}", "{{ .5 }}", "{{ 1e }}", "{{ 0x }}", "{{end}}", "{{else}}", "{{if}}", "{{block b()}}", "{{extends \"/base.jet\"}}", "{{import \"main.jet\"}}",
		"{{ a[ }}", "{{ a[:] }}", "{{ x | f: _, }}", "{{ try }}{{ catch e }}{{ end }}", "{{ range i, v := x }}{{ else }}{{ end }}", "{{ yield b(a=1) content }}{{ end }}", "{{ return }}", "{{ a ? b : c }}", "{{ -٣ }}", "{{ f(+３) }}", "{{ x[-৩] }}", "{{ a\u00a0b }}", "\xff{{\xfe}}", "{{ \"\\", "[[ x ]]", "<% x %>"} {
		for sel := uint8(0); sel < 10; sel += 3 {
			f.Add(s, sel)
		}
	}
}

// FuzzC02Source: any byte string, ten delimiter configurations, Parse or GetTemplate.
func FuzzC02Source(f *testing.F) {
	defer isoPool.Close()
	addSourceSeeds(f)
	f.Fuzz(func(t *testing.T, src string, sel uint8) {
		c := c02Case{Gen: "native-fuzz", Mode: "parse", Delims: fuzzDelims[int(sel&15)%len(fuzzDelims)], Src: src}
		if sel&16 != 0 {
			c.Mode = "get"
			c.Files = map[string]string{"/base.jet": c.Delims.L() + "block blk0()" + c.Delims.R() + "base" + c.Delims.L() + "end" + c.Delims.R()}
		}
		core.One(t, "C02", c, judgeC02)
	})
}

// FuzzC20Source: whatever the parser accepts is walked.
func FuzzC20Source(f *testing.F) {
	defer isoPool.Close()
	addSourceSeeds(f)
	f.Fuzz(func(t *testing.T, src string, sel uint8) {
		core.One(t, "C20", c20Case{Delims: fuzzDelims[int(sel&15)%len(fuzzDelims)], Src: src}, judgeC20)
	})
}

// ---- decision-stream targets ----

func FuzzC01(f *testing.F) { core.Fuzz(f, "C01", "", genC01, judgeC01) }
func FuzzC02(f *testing.F) { core.Fuzz(f, "C02", "", genC02, judgeC02) }
func FuzzC03(f *testing.F) { core.Fuzz(f, "C03", "", genC03, judgeC03) }
func FuzzC04(f *testing.F) { core.Fuzz(f, "C04", "", genC04, judgeC04) }
func FuzzC05(f *testing.F) { core.Fuzz(f, "C05", "", genC05, judgeC05) }
func FuzzC06(f *testing.F) { core.Fuzz(f, "C06", "", genC06, judgeC06) }
func FuzzC07(f *testing.F) { core.Fuzz(f, "C07", "", genC07, judgeC07) }
func FuzzC08(f *testing.F) { core.Fuzz(f, "C08", "", genC08, judgeC08) }
func FuzzC09(f *testing.F) { core.Fuzz(f, "C09", "", genC09, judgeC09) }
func FuzzC12(f *testing.F) { core.Fuzz(f, "C12", "", genC12, judgeC12) }
func FuzzC13(f *testing.F) { core.Fuzz(f, "C13", "", genC13, judgeC13) }
func FuzzC14(f *testing.F) { core.Fuzz(f, "C14", "", genC14, judgeC14) }
func FuzzC15(f *testing.F) { core.Fuzz(f, "C15", "", genC15, judgeC15) }
func FuzzC16(f *testing.F) { core.Fuzz(f, "C16", "", genC16, judgeC16) }
func FuzzC17(f *testing.F) { core.Fuzz(f, "C17", "", genC17, judgeC17) }
func FuzzC18(f *testing.F) { core.Fuzz(f, "C18", "", genC18, judgeC18) }
func FuzzC19(f *testing.F) { core.Fuzz(f, "C19", "", genC19, judgeC19) }
func FuzzC20(f *testing.F) { core.Fuzz(f, "C20", "", genC20, judgeC20) }
