package checks

// C03 — literal text is copied verbatim; only trim markers and comments
// remove bytes; identically for every delimiter configuration.
//
// Generator: a sequence of segments (text / marker action / comment) under a
// delimiter configuration. Oracle: a specification model on segments.

import (
	"fmt"
	"github.com/CloudyKit/jet/v6"
	"io"
	"reflect"
	"strings"
	"testing"

	"jetverif/core"
	"jetverif/jetrun"

	"pgregory.net/rapid"
)

type c03Seg struct {
	Kind   string `json:"k"` // "text" | "action" | "comment"
	Text   string `json:"t"` // text bytes | marker | comment body
	TrimL  bool   `json:"tl,omitempty"`
	TrimR  bool   `json:"tr,omitempty"`
	PadL   string `json:"pl,omitempty"` // whitespace inside the action, left of the expression
	PadR   string `json:"pr,omitempty"`
	Number bool   `json:"n,omitempty"` // marker printed as a number literal instead of a string literal
	// Shout: the action is a call of shout(), a Go function that wraps Runtime.Writer (an exported field, as exec()
	// itself uses it) in a writer that turns a-z into A-Z: from here on everything the template emits, text included
	Shout bool `json:"shout,omitempty"`
	// Raw: the marker is written as a raw string literal that ends in a backslash (`M1\`): the literal ends at its
	// closing back quote, and what follows the action is text
	Raw bool `json:"raw,omitempty"`
}

type c03Upper struct{ w io.Writer }

func c03UpperASCII(b []byte) []byte {
	out := append([]byte(nil), b...)
	for i, ch := range out {
		if ch >= 'a' && ch <= 'z' {
			out[i] = ch - 'a' + 'A'
		}
	}
	return out
}

func (u c03Upper) Write(b []byte) (int, error) {
	_, err := u.w.Write(c03UpperASCII(b))
	return len(b), err
}

func c03Vars() jet.VarMap {
	vars := jet.VarMap{}
	vars.SetFunc("shout", func(a jet.Arguments) reflect.Value {
		a.Runtime().Writer = c03Upper{a.Runtime().Writer}
		return reflect.Value{}
	})
	return vars
}

type c03Case struct {
	Delims jetrun.Delims `json:"delims"`
	Header string        `json:"header"` // "" | "import" | "extends"
	HeadWS [2]string     `json:"headws"` // whitespace before / after the header clause
	Junk   string        `json:"junk"`   // text in the extending child (must be discarded)
	Segs   []c03Seg      `json:"segs"`
	Reader string        `json:"reader,omitempty"` // how the loader's readers deliver the source: "" | data-eof | one-byte | half
}

const ws4 = " \t\r\n"

var c03DelimPool = []jetrun.Delims{
	{},
	{},
	{Left: "[[", Right: "]]"},
	{Left: "<%", Right: "%>", CLeft: "<#", CRight: "#>"},
	{Left: "{%", Right: "%}", CLeft: "{#", CRight: "#}"},
	{Left: "<%", Right: "%>"},
	{Left: "<", Right: ">"},
	{Left: "«", Right: "»"},
	{Left: "@@", Right: "@@", CLeft: "@*", CRight: "*@"},
	{Left: "{{", Right: "}}", CLeft: "{#", CRight: "#}"},
	{Left: "[[", Right: "]]", CLeft: "[*", CRight: "*]"},
	{Left: "${", Right: "}", CLeft: "$*", CRight: "*$"},
	{CLeft: "<!", CRight: "!>"},
	// opening and closing marker of different lengths
	{CLeft: "<!--", CRight: "-->"},
	{CLeft: "#", CRight: "#/"},
	{Left: "<%", Right: "%>", CLeft: "<#--", CRight: "--#>"},
	{Left: "[[", Right: "]", CLeft: "[*", CRight: "*]]"},
	// comment markers that begin with the action delimiter (ERB, mustache): the longer one is meant
	{Left: "<%", Right: "%>", CLeft: "<%#", CRight: "#%>"},
	{CLeft: "{{!", CRight: "}}"},
	{CLeft: "{{!--", CRight: "--}}"},
	{Left: "[[", Right: "]]", CLeft: "[[#", CRight: "]]"},
	// the other way round: action delimiters that begin with the comment marker (the longer one is meant again)
	{Left: "#{", Right: "}", CLeft: "#", CRight: "\n"},
	{CLeft: "{", CRight: "}"},
	{Left: "<%", Right: "%>", CLeft: "<", CRight: ">"},
	{Left: "[[[", Right: "]]]", CLeft: "[[", CRight: "]]"},
	// only one of the two comment markers configured: the other one keeps its default
	{CLeft: "<#"}, {CRight: "#}"}, {Left: "[[", Right: "]]", CRight: "#]"}, {Left: "<%", Right: "%>", CLeft: "<!--"},
}

func genDelims(t *rapid.T) jetrun.Delims {
	d := genDelimPair(t)
	if (d.Left != "" || d.Right != "") && (d.CLeft != "" || d.CRight != "") {
		d.CommentFirst = rapid.Bool().Draw(t, "commentOptionFirst")
	}
	return d
}

func genDelimPair(t *rapid.T) jetrun.Delims {
	if rapid.IntRange(0, 9).Draw(t, "delimRandom") > 0 {
		return rapid.SampledFrom(c03DelimPool).Draw(t, "delims")
	}
	open := []string{"{{", "[[", "<%", "<", "{%", "«", "@@", "${", "[", "<<", "{{{", "%%"}
	clos := []string{"}}", "]]", "%>", ">", "%}", "»", "@@", "}", "]", ">>", "}}}", "%%"}
	copen := []string{"{*", "<#", "{#", "@*", "[*", "<!", "#", "{{*", "<!--", "/+"}
	cclos := []string{"*}", "#>", "#}", "*@", "*]", "!>", "#", "*}}", "-->", "+/~"}
	for try := 0; ; try++ {
		i := rapid.IntRange(0, len(open)-1).Draw(t, "dl")
		j := rapid.IntRange(0, len(copen)-1).Draw(t, "dc")
		d := jetrun.Delims{Left: open[i], Right: clos[i], CLeft: copen[j], CRight: cclos[j]}
		if !strings.HasPrefix(d.Left, d.CLeft) && !strings.HasPrefix(d.CLeft, d.Left) {
			return d
		}
		if try > 20 {
			return jetrun.Delims{}
		}
	}
}

func genWS(t *rapid.T, label string, min, max int) string {
	n := rapid.IntRange(min, max).Draw(t, label+"N")
	var b strings.Builder
	for i := 0; i < n; i++ {
		b.WriteByte(ws4[rapid.IntRange(0, 3).Draw(t, label)])
	}
	return b.String()
}

// genText draws literal text over an alphabet of letters, all four whitespace
// bytes, lone delimiter characters, multi-byte runes, right delimiters and
// right comment markers.
func genText(t *rapid.T, d jetrun.Delims, label string) string {
	atoms := []string{"a", "b", "Z", "0", " ", " ", "\t", "\r", "\n", "\n", "{", "}", "*", "-", "[", "]", "<", ">", "%", "#", "@", "$", "!", "é", "日", "«", "»", "\"", "'", "&", ".", "\x00", "\xff",
		// white space in the Unicode sense that no trim marker removes
		"\v", "\f", "\u0085", "\u00a0", "\u2028", "\u3000",
		d.R(), d.CR(), " -", "- ", " -" + d.R(), d.L()[:1], d.CL()[:1], d.R()[:1]}
	n := rapid.IntRange(1, 8).Draw(t, label+"N")
	var b strings.Builder
	for i := 0; i < n; i++ {
		b.WriteString(atoms[rapid.IntRange(0, len(atoms)-1).Draw(t, label)])
	}
	return b.String()
}

// sanitizeText removes bytes from text until no left action / comment
// delimiter starts inside it (also not one completed by what follows).
func sanitizeText(text, next string, d jetrun.Delims) string {
	for {
		bad := -1
		full := text + next
		for _, op := range []string{d.L(), d.CL()} {
			from := 0
			for {
				i := strings.Index(full[from:], op)
				if i < 0 {
					break
				}
				i += from
				if i < len(text) {
					if bad < 0 || i < bad {
						bad = i
					}
					break
				}
				break
			}
		}
		if bad < 0 {
			return text
		}
		text = text[:bad] + text[bad+1:]
	}
}

func genC03(t *rapid.T) c03Case {
	c := c03Case{Delims: genDelims(t)}
	c.Reader = rapid.SampledFrom([]string{"", "", "", "", "data-eof", "one-byte", "half"}).Draw(t, "reader")
	switch rapid.IntRange(0, 5).Draw(t, "header") {
	case 4:
		c.Header = "import"
	case 5:
		c.Header = "extends"
	}
	if c.Header != "" {
		c.HeadWS[0] = genWS(t, "hws0", 0, 2)
		c.HeadWS[1] = genWS(t, "hws1", 0, 3)
		c.Junk = genWS(t, "junkws", 0, 2) + rapid.SampledFrom([]string{"", "junk", "x y"}).Draw(t, "junk")
	}
	n := rapid.IntRange(1, 7).Draw(t, "nsegs")
	marker := 0
	for i := 0; i < n; i++ {
		switch rapid.IntRange(0, 9).Draw(t, "kind") {
		case 0, 1, 2, 3:
			var s c03Seg
			s.Kind = "text"
			if rapid.IntRange(0, 3).Draw(t, "wsonly") == 0 {
				s.Text = genWS(t, "ws", 1, 4)
			} else {
				s.Text = genWS(t, "lead", 0, 2) + genText(t, c.Delims, "text") + genWS(t, "trail", 0, 2)
			}
			c.Segs = append(c.Segs, s)
		case 4, 5, 6, 7:
			marker++
			s := c03Seg{Kind: "action", Text: fmt.Sprintf("M%d", marker)}
			if rapid.IntRange(0, 3).Draw(t, "num") == 0 {
				s.Number = true
				s.Text = fmt.Sprint(marker)
			}
			if c.Header == "" && rapid.IntRange(0, 11).Draw(t, "shout") == 0 {
				s.Shout, s.Number, s.Text = true, false, ""
			}
			if !s.Shout && !s.Number && !strings.Contains(c.Delims.L()+c.Delims.R()+c.Delims.CL()+c.Delims.CR(), "`") && rapid.IntRange(0, 7).Draw(t, "rawLiteral") == 0 {
				s.Raw = true
				s.Text += "\\"
			}
			s.TrimL = rapid.Bool().Draw(t, "triml")
			s.TrimR = rapid.Bool().Draw(t, "trimr")
			s.PadL = genWS(t, "padl", 0, 2)
			s.PadR = genWS(t, "padr", 0, 2)
			c.Segs = append(c.Segs, s)
		default:
			body := genWS(t, "cws", 0, 1) + rapid.SampledFrom([]string{"", "c", "note\nmore", c.Delims.L() + " x " + c.Delims.R(), c.Delims.L(), "*", "-", " - ", c.Delims.CL(),
				c.Delims.CR()[1:] + "b", c.Delims.CR()[1:], c.Delims.CR()[1:] + "x" + c.Delims.CL() + " y"}).Draw(t, "cbody") + genWS(t, "cws2", 0, 1)
			c.Segs = append(c.Segs, c03Seg{Kind: "comment", Text: body})
		}
	}
	return c.normalise()
}

// normalise makes the case say what it means: merges adjacent texts, removes
// accidental delimiters, keeps comment bodies free of their closer.
func (c c03Case) normalise() c03Case {
	d := c.Delims
	var segs []c03Seg
	for _, s := range c.Segs {
		if s.Kind == "text" && len(segs) > 0 && segs[len(segs)-1].Kind == "text" {
			segs[len(segs)-1].Text += s.Text
			continue
		}
		if s.Kind == "comment" {
			for strings.Index(s.Text+d.CR(), d.CR()) != len(s.Text) {
				i := strings.Index(s.Text+d.CR(), d.CR())
				s.Text = s.Text[:i] + s.Text[i+1:]
			}
			// where the action delimiter begins with the comment marker, a comment whose body completes the
			// action delimiter is an action by the longest-match reading: such a body is not a comment body
			for len(d.L()) > len(d.CL()) && strings.HasPrefix(d.L(), d.CL()) && strings.HasPrefix(d.CL()+s.Text+d.CR(), d.L()) {
				if s.Text == "" {
					s.Text = " "
				} else {
					s.Text = s.Text[1:]
				}
			}
		}
		segs = append(segs, s)
	}
	// remove accidental openers from texts
	for i := range segs {
		if segs[i].Kind != "text" {
			continue
		}
		next := ""
		if i+1 < len(segs) {
			next = c.printSeg(segs[i+1])
		}
		segs[i].Text = sanitizeText(segs[i].Text, next, d)
	}
	// drop texts that became empty and re-merge
	var out []c03Seg
	for _, s := range segs {
		if s.Kind == "text" && s.Text == "" {
			continue
		}
		if s.Kind == "text" && len(out) > 0 && out[len(out)-1].Kind == "text" {
			out[len(out)-1].Text += s.Text
			continue
		}
		out = append(out, s)
	}
	// a merge can create a new opener across the old boundary: sanitize once more
	for i := range out {
		if out[i].Kind == "text" {
			next := ""
			if i+1 < len(out) {
				next = c.printSeg(out[i+1])
			}
			out[i].Text = sanitizeText(out[i].Text, next, d)
		}
	}
	// header variant: whether whitespace-only text separated from the clause by a
	// comment still counts as "next to the clause" is left open by the statement,
	// so the leading run of whitespace-only texts and comments carries no comment.
	if c.Header == "import" {
		var lead []c03Seg
		i := 0
		for ; i < len(out); i++ {
			if out[i].Kind == "comment" {
				continue
			}
			if out[i].Kind == "text" && strings.Trim(out[i].Text, ws4) == "" {
				lead = append(lead, out[i])
				continue
			}
			break
		}
		rest := out[i:]
		out = nil
		for _, s := range lead {
			if len(out) > 0 {
				out[0].Text += s.Text
			} else {
				out = append(out, s)
			}
		}
		if len(out) > 0 && len(rest) > 0 && rest[0].Kind == "text" {
			out[0].Text += rest[0].Text
			rest = rest[1:]
		}
		out = append(out, rest...)
	}
	c.Segs = out
	return c
}

func (c c03Case) printSeg(s c03Seg) string {
	d := c.Delims
	switch s.Kind {
	case "text":
		return s.Text
	case "comment":
		return d.CL() + s.Text + d.CR()
	}
	var b strings.Builder
	b.WriteString(d.L())
	if s.TrimL {
		b.WriteString("- ")
	}
	b.WriteString(s.PadL)
	if s.Shout {
		b.WriteString("shout()")
	} else if s.Raw {
		b.WriteString("`" + s.Text + "`")
	} else if s.Number {
		b.WriteString(s.Text)
	} else {
		b.WriteString(`"` + s.Text + `"`)
	}
	b.WriteString(s.PadR)
	if s.TrimR {
		b.WriteString(" -")
	}
	b.WriteString(d.R())
	return b.String()
}

func (c c03Case) body() string {
	var b strings.Builder
	for _, s := range c.Segs {
		b.WriteString(c.printSeg(s))
	}
	return b.String()
}

// files returns the template set and the entry name.
func (c c03Case) files() (map[string]string, string) {
	d := c.Delims
	switch c.Header {
	case "import":
		return map[string]string{
			"/lib.jet":  d.L() + `block libblock()` + d.R() + "LIB" + d.L() + "end" + d.R() + " lib text ",
			"/main.jet": c.HeadWS[0] + d.L() + ` import "lib.jet" ` + d.R() + c.HeadWS[1] + c.body(),
		}, "/main.jet"
	case "extends":
		return map[string]string{
			"/base.jet": c.body(),
			"/main.jet": c.HeadWS[0] + d.L() + `extends "base.jet"` + d.R() + c.HeadWS[1] + c.Junk,
		}, "/main.jet"
	}
	return map[string]string{"/main.jet": c.body()}, "/main.jet"
}

// expected is the specification model.
func (c c03Case) expected() string {
	segs := c.Segs
	var b strings.Builder
	upper := false // a shout() has been executed: what follows reaches the destination in upper case
	emit := func(t string) {
		if upper {
			t = string(c03UpperASCII([]byte(t)))
		}
		b.WriteString(t)
	}
	for i, s := range segs {
		switch s.Kind {
		case "action":
			if s.Shout {
				upper = true
			}
			emit(s.Text)
		case "text":
			t := s.Text
			if i > 0 && segs[i-1].Kind == "action" && segs[i-1].TrimR {
				t = strings.TrimLeft(t, ws4)
			}
			if i+1 < len(segs) && segs[i+1].Kind == "action" && segs[i+1].TrimL {
				t = strings.TrimRight(t, ws4)
			}
			if c.Header == "import" && i == 0 {
				// text directly after the clause: HeadWS[1]+t is one text token; whitespace-only => dropped
				full := c.HeadWS[1] + s.Text
				if strings.Trim(full, ws4) == "" {
					t = ""
				} else {
					t = c.HeadWS[1] + t
				}
			}
			emit(t)
		}
	}
	return b.String()
}

func (c c03Case) shouts() bool {
	for _, s := range c.Segs {
		if s.Shout {
			return true
		}
	}
	return false
}

func judgeC03(c c03Case) (v core.Verdict) {
	if c.Header == "import" && len(c.Segs) > 0 && c.Segs[0].Kind == "text" {
		// "whitespace-only text next to import clauses is dropped": whether that covers text made of \v, \f,
		// NBSP, ... (white space to unicode.IsSpace, not to the trim markers) is left open by the statement
		if full := c.HeadWS[1] + c.Segs[0].Text; strings.Trim(full, ws4) != "" && strings.TrimSpace(full) == "" {
			v.Discard = "unicode-whitespace-only-text-next-to-import"
			return
		}
	}
	files, entry := c.files()
	want := c.expected()
	if c.Header == "import" && (len(c.Segs) == 0 || c.Segs[0].Kind != "text") && false {
		_ = want
	}
	var o jetrun.Outcome
	if c.Reader == "" {
		o = jetrun.Render(files, entry, c03Vars(), nil, c.Delims.Options()...)
	} else {
		v.Label("reader:" + c.Reader)
		t, og := jetrun.Get(jetrun.NewStyledSet(files, c.Reader, c.Delims.Options()...), entry)
		if o = og; !og.Failed() {
			o = jetrun.Exec(t, c03Vars(), nil)
		}
	}
	nAction, nComment, wsTrim, lone := 0, 0, false, false
	for i, s := range c.Segs {
		switch s.Kind {
		case "action":
			nAction++
		case "comment":
			nComment++
		case "text":
			if i+1 < len(c.Segs) && c.Segs[i+1].Kind == "action" && c.Segs[i+1].TrimL && strings.TrimRight(s.Text, ws4) != s.Text {
				wsTrim = true
			}
			if i > 0 && c.Segs[i-1].Kind == "action" && c.Segs[i-1].TrimR && strings.TrimLeft(s.Text, ws4) != s.Text {
				wsTrim = true
			}
			if strings.ContainsAny(s.Text, "{}[]<>%#*@$") {
				lone = true
			}
		}
	}
	v.NonTrivial = nAction+nComment >= 2 && (wsTrim || lone)
	dl := "delims:" + c.Delims.L() + c.Delims.R() + "/" + c.Delims.CL() + c.Delims.CR()
	v.Label(dl, "header:"+c.Header)
	if wsTrim {
		v.Label("trim-next-to-ws")
	}
	if n := len(c.Segs); n > 0 && c.Segs[n-1].Kind == "comment" {
		v.Label("comment-at-end")
	}
	if len(c.Segs) > 0 && c.Segs[0].Kind == "text" && strings.Trim(c.Segs[0].Text, ws4) == "" {
		v.Label("ws-only-lead")
	}
	if o.Failed() {
		v.Failf("source %q should render %q but failed: %s", files[entry], want, o)
		return
	}
	if o.Out != want {
		v.Failf("files %q (delims %+v): got %q want %q", files, c.Delims, o.Out, want)
		return
	}
	// the same template into a destination that has nothing but a Write method and breaks after some bytes: what
	// it accepted is the beginning of the output, and when the template ends in text that could not be delivered
	// any more, Execute says so
	if c.shouts() {
		v.Label("go-code-wraps-the-writer-midway")
		return
	}
	if n := len(c.Segs); n > 0 && c.Segs[n-1].Kind == "text" && strings.HasSuffix(want, c.Segs[n-1].Text) && c.Segs[n-1].Text != "" {
		k := (len(want) - 1) * (1 + len(c.Junk)%7) / 8 // somewhere before the last byte
		w := &c03Breaking{left: k}
		t, og := jetrun.Get(jetrun.NewStyledSet(files, c.Reader, c.Delims.Options()...), entry)
		if og.Failed() {
			return
		}
		var err error
		func() {
			defer func() {
				if r := recover(); r != nil {
					err = fmt.Errorf("PANIC: %v", r)
				}
			}()
			err = t.Execute(w, nil, nil)
		}()
		v.Label("destination-without-WriteByte-that-breaks")
		if err == nil {
			v.Failf("files %q: the destination broke after %d of %d bytes, the template ends in text, yet Execute returned nil (destination has %q)", files, k, len(want), w.got)
		} else if strings.HasPrefix(err.Error(), "PANIC") || !strings.HasPrefix(want, string(w.got)) {
			v.Failf("files %q: the destination broke after %d bytes: %v; it has %q, which is not the beginning of %q", files, k, err, w.got, want)
		}
	}
	return
}

// c03Breaking is a destination with a Write method and nothing else; it accepts left bytes and fails from then on.
type c03Breaking struct {
	left int
	got  []byte
}

func (w *c03Breaking) Write(b []byte) (int, error) {
	if len(b) <= w.left {
		w.left -= len(b)
		w.got = append(w.got, b...)
		return len(b), nil
	}
	n := w.left
	w.left = 0
	w.got = append(w.got, b[:n]...)
	return n, fmt.Errorf("destination broke")
}

func TestC03(t *testing.T) {
	core.Run(t, "C03",
		"segments (text over whitespace/lone-delimiter/multibyte/Unicode-white-space alphabet, marker actions with independent trim markers, comments) under 22 fixed + random delimiter configurations (options in either order; comment markers that begin with the action delimiter), optional import/extends header, loader readers delivering the source whole / with data+EOF in one Read / byte by byte / in halves; templates that end in text are rendered a second time into a Write-only destination that breaks before the last byte (prefix delivered, Execute reports it); also: action delimiters that begin with the comment marker ('#{' with '#', '{{' with '{', '<%' with '<', '[[[' with '[['); round 10: only one of the two comment markers configured; a Go function that wraps Runtime.Writer in an upper-casing writer midway (text after it arrives in upper case, in source order); round 11: markers written as raw string literals that end in a backslash; non-trivial = >=2 non-text segments and a text with whitespace next to a trim marker or a lone delimiter byte; distinct by case hash",
		genC03, judgeC03)
}

func TestC03Replay(t *testing.T) { core.Replay(t, "C03", judgeC03) }
