// Package embedroot holds an embed.FS whose root is the package directory itself ("."), with files and a
// directory whose names begin with a dot at the top level.
package embedroot

import "embed"

//go:embed .hidden.jet top.jet all:.conf plain/.dot.jet plain/p.jet
var FS embed.FS

// Model is what the file system holds, keyed by the clean absolute template path.
var Model = map[string]string{
	"/.hidden.jet":     "hidden top-level template",
	"/top.jet":         "top",
	"/.conf/inner.jet": "inner of dot dir",
	"/plain/.dot.jet":  "dot file in plain dir",
	"/plain/p.jet":     "p",
}
