package checks

// C13 — try is all-or-nothing and leaves no trace of a failed body: output
// iff the whole body succeeded; catch runs once with the error bound; after
// the statement context, variables, block content and destination are as
// before.

import (
	"fmt"
	"reflect"
	"sort"
	"strings"
	"testing"

	"jetverif/core"
	"jetverif/mj"

	"github.com/CloudyKit/jet/v6"
	"pgregory.net/rapid"
)

type c13Case struct {
	Prog   *mj.Program `json:"prog"`
	Src    []string    `json:"src"`
	Labels []string    `json:"labels,omitempty"`
}

// failing actions (every class C12 lists); all of them fail inside the engine.
var failingActions = []struct{ class, src string }{
	{"unknown-identifier", "noSuchVariable"},
	{"unknown-identifier", "noSuchFunction(1)"},
	{"unknown-field", "fuser.NoSuchField"},
	{"unknown-field", ".NoSuchField.Deeper"},
	{"unknown-method", "fuser.NoSuchMethod()"},
	{"unknown-block", "yield noSuchBlock()"},
	{"unknown-template", `include "/no/such/template.jet"`},
	{"unknown-template", `exec("/no/such/template.jet")`},
	{"index-range", "fxs[9]"},
	{"index-kind", `fxs["a"]`},
	{"index-kind", "fnum[0]"},
	{"operand-kind", `"a" * 2`},
	{"operand-kind", `fnum - "x"`},
	{"operand-kind", `fxs < 1`},
	{"call-non-function", "fnum(1)"},
	{"call-non-function", "1 | fnum"},
	{"argument-count", "upper()"},
	{"argument-count", `upper("a", "b")`},
	{"argument-kind", "len(1)"},
	{"range-kind", "range fnum }}x{{ end"},
	{"range-kind", "range fnil }}x{{ end"},
	{"assign-undeclared", "neverDeclared = 1"},
	{"function-error", `failfn("boom")`},
	{"function-error", `exec("/inc/execfail.jet")`},
	{"function-error", `includeIfExists("/inc/execfail.jet")`},
	{"writer-not-last", `raw: "x" | upper`},
	// output produced by a call inside a condition / an assignment: the statement itself renders nothing
	{"function-error", `if includeIfExists("/inc/execfail.jet") }}{{ end`},
	{"function-error", `silentv := includeIfExists("/inc/execfail.jet")`},
	{"function-error", `if exec("/inc/execfail.jet") }}{{ end`},
	// a value that renders itself in pieces and gives up after a piece that ends inside a character
	// a function that panics with a nil pointer in an error value: a failure like any other
	{"nil-error-panic", "nilerrpanicfn()"},
	// a value whose String method fails, printed through a SafeWriter
	{"function-error", "fpanicstr | raw"},
	{"function-error", "fpanicstr | safeHtml"},
	{"function-error", "unsafe: fpanicstr"},
	{"renderer-failed", "frend"},
	{"renderer-failed", "frend2"},
}

// StrPanicText is what strpanicfn panics with: a string, not an error
const StrPanicText = "plain string panic from a user function: 100% <sure>, 50%d off, trailing %"

// nilSafeErr: an error type whose methods tolerate a nil receiver
type nilSafeErr struct{ msg string }

func (e *nilSafeErr) Error() string {
	if e == nil {
		return "nil *nilSafeErr"
	}
	return e.msg
}

func failFuncs() map[string]jet.Func {
	return map[string]jet.Func{
		"failfn": func(a jet.Arguments) reflect.Value {
			a.Panicf("failfn: %v", a.Get(0))
			return reflect.Value{}
		},
		// a user function with a genuine bug: Go runtime errors are re-panicked by Execute by design
		"rtpanicfn": func(a jet.Arguments) reflect.Value {
			var m map[string]int
			m["boom"] = 1
			return reflect.Value{}
		},
		"nilerrpanicfn": func(a jet.Arguments) reflect.Value {
			var e *nilSafeErr
			panic(error(e))
		},
		// a user function that panics with something that is not an error value
		"strpanicfn": func(a jet.Arguments) reflect.Value {
			panic(StrPanicText)
		},
		// a user function that reports a failure of its own, with the low-level error it ran into attached as the
		// cause (%w): an error value like any other, not a Go runtime error of the engine
		"wrappedfn": func(a jet.Arguments) reflect.Value {
			var cause error
			func() {
				defer func() { cause, _ = recover().(error) }()
				var rows []int
				_ = rows[a.NumOfArguments()+3]
			}()
			panic(fmt.Errorf("wrappedfn: lookup failed: %w", cause))
		},
		"apiYield": c18Funcs()["apiYield"],
		// a helper that changes, in place, the number a variable holds - if the engine hands out something that
		// can be changed in place (what a variable was initialised from must not change with it)
		"bump": func(a jet.Arguments) reflect.Value {
			v := a.Runtime().Resolve(a.Get(0).String())
			if v.IsValid() && v.CanSet() && v.Kind() == reflect.Float64 {
				v.SetFloat(v.Float() + 1)
			} else if v.IsValid() && v.Kind() == reflect.Float64 {
				a.Runtime().Set(a.Get(0).String(), v.Float()+1)
			} else if v.IsValid() && v.CanSet() && v.Kind() == reflect.String {
				v.SetString(v.String() + "!") // the same for text
			} else if v.IsValid() && v.Kind() == reflect.String {
				a.Runtime().Set(a.Get(0).String(), v.String()+"!")
			}
			return reflect.Value{}
		},
		// a function that takes no arguments at all and says so
		"noargs": func(a jet.Arguments) reflect.Value {
			a.RequireNumOfArguments("noargs", 0, 0)
			return reflect.ValueOf("no-args-taken")
		},
		// Go code that writes through the Runtime it is handed (as the reference interpreter's rtWrite does)
		"rtWrite": func(a jet.Arguments) reflect.Value {
			for i := 0; i < a.NumOfArguments(); i++ {
				a.Runtime().Write([]byte(a.Get(i).String()))
			}
			return reflect.Value{}
		},
		// a jet.Func that tolerates whatever it is handed (also an invalid piped value)
		"passthru": func(a jet.Arguments) reflect.Value {
			if a.NumOfArguments() > 0 {
				return a.Get(0)
			}
			return reflect.Value{}
		},
	}
}

// failFiles adds the template that fails while it renders (after producing output): exec / includeIfExists of it
// fail inside the built-in, with the writer swapped.
func failFiles(p *mj.Program) {
	for _, f := range p.Files {
		if f.Path == "/inc/execfail.jet" {
			return
		}
	}
	p.Files = append(p.Files, &mj.File{Path: "/inc/execfail.jet", Body: []*mj.Node{mj.Text("partial output of execfail "), {K: "fail", Src: "noSuchVariable", Class: "unknown-identifier"}}})
}

func failVars(p *mj.Program) {
	p.Vars["fuser"] = mj.Recipe{T: "user", S: "fu"}
	p.Vars["fxs"] = mj.RInts(1, 2)
	p.Vars["fnum"] = mj.RInt(5)
	p.Vars["fnil"] = mj.RNil()
	p.Vars["fpanicstr"] = mj.Recipe{T: "panic-stringer"}
	p.Vars["frend"] = mj.Recipe{T: "rend-chunks", Ss: []string{"r<\xe6\x97"}, I: 1}
	p.Vars["frend2"] = mj.Recipe{T: "rend-chunks", Ss: []string{"日本", "語\xf0\x9f\x98", "never"}, I: 2, B: true}
}

type c13Gen struct {
	t      *rapid.T
	p      *mj.Program
	uniq   int
	labels map[string]bool
	lib    *mj.File
	decls  []string // names declared inside try / catch bodies
	marker bool     // the entry template and every included template define a block "marker" of their own
}

func (g *c13Gen) n(lo, hi int, l string) int { return rapid.IntRange(lo, hi).Draw(g.t, l) }
func (g *c13Gen) id(p string) string         { g.uniq++; return fmt.Sprintf("%s%d", p, g.uniq) }

func (g *c13Gen) failure() *mj.Node {
	f := failingActions[g.n(0, len(failingActions)-1, "failure")]
	g.labels["failure:"+f.class] = true
	return &mj.Node{K: "fail", Src: f.src, Class: f.class}
}

// path nests `depth` constructs around inner; every level changes some state a failure must not leak.
func (g *c13Gen) path(depth int, inner []*mj.Node) []*mj.Node {
	if depth <= 0 {
		return inner
	}
	in := g.path(depth-1, inner)
	pre, post := mj.Text(g.id("p")), mj.Text(g.id("q"))
	decl := g.id("pv")
	g.decls = append(g.decls, decl)
	body := append([]*mj.Node{mj.Let(decl, mj.Str("x")), mj.Text("(.="), mj.Print(mj.Dot()), mj.Text(")")}, in...)
	var mid []*mj.Node
	k := g.n(0, 9, "pathkind")
	switch k {
	case 0:
		g.labels["below:range-context"] = true
		mid = []*mj.Node{{K: "range", E: mj.Call("slice", mj.Str(g.id("e")), mj.Str(g.id("e"))), Body: body}}
	case 1:
		g.labels["below:range-let"] = true
		iv, vv := g.id("i"), g.id("v")
		g.decls = append(g.decls, iv, vv)
		mid = []*mj.Node{{K: "range", Names: []string{iv, vv}, Decl: true, E: mj.Call("slice", mj.Str("a"), mj.Str("b")), Body: body}}
	case 2:
		g.labels["below:range-set"] = true
		iv := g.id("si")
		g.decls = append(g.decls, iv)
		mid = []*mj.Node{mj.Let(iv, mj.Num(-1)), {K: "range", Names: []string{iv}, E: mj.Call("slice", mj.Str("a"), mj.Str("b")), Body: body}}
	case 3:
		g.labels["below:if-let"] = true
		hv := g.id("h")
		g.decls = append(g.decls, hv)
		mid = []*mj.Node{{K: "if", Hdr: &mj.Node{K: "let", Decl: true, Names: []string{hv}, Es: []*mj.Expr{mj.Str("hv")}}, E: mj.Var(hv), Body: body}}
	case 4:
		g.labels["below:block-params-context"] = true
		pn := g.id("bp")
		g.decls = append(g.decls, pn)
		mid = []*mj.Node{{K: "block", Name: g.id("blk"), Params: []mj.Param{{Name: pn, E: mj.Str("pdef")}}, Ctx: mj.Str(g.id("bctx")), Body: body}}
	case 5:
		g.labels["below:yield-content"] = true
		mid = []*mj.Node{{K: "yield", Name: "wrap", Params: []mj.Param{{Name: "wp", E: mj.Str("wv")}}, Ctx: mj.Str(g.id("yctx")), HasCont: true, Content: body}}
	case 6:
		g.labels["below:yielded-block-body"] = true
		name := g.id("lb")
		g.lib.Body = append(g.lib.Body, &mj.Node{K: "block", Name: name, Params: []mj.Param{{Name: "lp", E: mj.Str("ld")}}, Body: append([]*mj.Node{mj.Text("{" + name + ":"), {K: "ycontent"}}, body...)})
		mid = []*mj.Node{{K: "yield", Name: name, Ctx: mj.Str(g.id("yctx")), HasCont: true, Content: []*mj.Node{mj.Text("<content of " + name + ">")}}}
	case 7:
		g.labels["below:include-context"] = true
		f := &mj.File{Path: "/inc/" + g.id("f") + ".jet", Body: body}
		if g.marker {
			// the included template brings a block of the same name as one of its includer
			f.Body = append([]*mj.Node{{K: "block", Name: "marker", Body: []*mj.Node{mj.Text("[marker of " + f.Path + "]")}}}, f.Body...)
		}
		g.p.Files = append(g.p.Files, f)
		mid = []*mj.Node{{K: "include", E: mj.Str(f.Path), Ctx: mj.Str(g.id("ictx"))}}
	case 9:
		// a Go helper renders a block for a value of its own (Runtime.YieldBlock with a context)
		g.labels["below:block-yielded-by-a-go-helper"] = true
		name := g.id("api")
		g.lib.Body = append(g.lib.Body, &mj.Node{K: "block", Name: name, Body: body})
		mid = []*mj.Node{mj.Print(mj.Call("apiYield", mj.Str(name), mj.Str(g.id("apictx"))))}
	default:
		g.labels["below:inner-try"] = true
		// an inner try that fails and is handled, then the path goes on; or an inner try whose catch fails
		if g.n(0, 1, "innerkind") == 0 {
			mid = append([]*mj.Node{{K: "try", Body: []*mj.Node{mj.Text("inner-lost"), g.failure()}, HasCatch: true, Catch: []*mj.Node{mj.Text("(inner caught)")}}}, body...)
		} else {
			mid = []*mj.Node{{K: "try", Body: []*mj.Node{mj.Text("inner-lost"), g.failure()}, HasCatch: true, Name: g.id("ie"), Catch: body}}
		}
	}
	return append(append([]*mj.Node{pre}, mid...), post)
}

func (g *c13Gen) tryStmt(inBlockWithContent bool) []*mj.Node {
	depth := g.n(0, 4, "pathdepth")
	var core []*mj.Node
	fails := g.n(0, 4, "fails") > 0
	if fails {
		fail := g.failure()
		if g.n(0, 9, "goRuntimeError") == 0 {
			// a Go runtime error (nil map assignment) in a user function: directly inside a try it is a failure of
			// the body like any other (only Execute itself hands such panics on)
			fail = &mj.Node{K: "fail", Src: "rtpanicfn()", Class: "function-error"}
			if g.n(0, 1, "panicPayload") == 1 {
				fail = &mj.Node{K: "fail", Src: "strpanicfn()", Class: "string-panic", Text: StrPanicText}
			}
			g.labels["failure:go-runtime-error-or-string-panic-in-try"] = true
		}
		core = []*mj.Node{mj.Text("reached"), fail, mj.Text("never")}
		g.labels["body-fails"] = true
	} else {
		core = []*mj.Node{mj.Text("fine")}
		g.labels["body-succeeds"] = true
	}
	tv := g.id("tv")
	bv := g.id("bodyvar")
	g.decls = append(g.decls, bv)
	lead := []*mj.Node{mj.Text("<try>"), mj.Let(bv, mj.Str("b"))}
	if g.n(0, 2, "bodySafeWriter") == 0 {
		// what a SafeWriter command prints belongs to the body like everything else
		w := []string{"raw", "unsafe", "safeHtml", "safeJs"}[g.n(0, 3, "bodyWriter")]
		lead = append(lead, mj.Text("(sw:"), mj.Print(mj.Pipe(mj.Str("<"+w+">"), w)), mj.Text(")"))
		g.labels["body-prints-through-safewriter"] = true
	}
	if g.n(0, 5, "bodyLong") == 0 {
		// more than a few KiB before the failing point: buffering must not depend on the amount
		lead = append(lead, mj.Text(strings.Repeat("0123456789abcdef", 300+g.n(0, 300, "bodyLongLen"))))
		g.labels["body-longer-than-4KiB"] = true
	}
	body := append(lead, g.path(depth, core)...)
	body = append(body, mj.Text("</try>"))
	n := &mj.Node{K: "try", Body: body}
	if fails && g.n(0, 7, "silentBody") == 0 {
		// a try body without a single text node or printing action: what its calls render is still all-or-nothing
		n.Body = []*mj.Node{{K: "fail", Src: []string{`if includeIfExists("/inc/execfail.jet") }}{{ end`, `silentv := includeIfExists("/inc/execfail.jet")`, `if exec("/inc/execfail.jet") }}{{ end`, `silentv := exec("/inc/execfail.jet")`}[g.n(0, 3, "silentKind")], Class: "function-error"}}
		g.labels["try-body-without-text"] = true
	}
	switch g.n(0, 3, "catch") {
	case 0:
	case 1:
		n.HasCatch = true
		n.Catch = []*mj.Node{mj.Text("(caught)")}
		if inBlockWithContent {
			// the handler belongs to the block the try stands in: its content, not that of whatever failed below
			n.Catch = append(n.Catch, mj.Text("(handler content:"), &mj.Node{K: "ycontent"}, mj.Text(")"))
		}
		g.labels["catch"] = true
	default:
		n.HasCatch = true
		n.Name = g.id("err")
		if g.n(0, 3, "catchNameCollides") == 0 {
			// the catch variable reuses the name of a variable that is in sight: it must only shadow it
			n.Name = tv
			g.labels["catch-variable-shadows-outer"] = true
		}
		cv := g.id("catchvar")
		g.decls = append(g.decls, cv)
		if n.Name != tv {
			g.decls = append(g.decls, n.Name)
		}
		n.Catch = []*mj.Node{mj.Text("(caught, err set:"), mj.Print(mj.Call("isset", mj.Var(n.Name))), mj.Text(")"), mj.Let(cv, mj.Str("c")), mj.Text("(.="), mj.Print(mj.Dot()), mj.Text(")")}
		if fails && core[1].Class == "string-panic" && n.Body[0].K != "fail" {
			// the failure is a value, not an error: the variable holds that value as it is
			n.Catch = append(n.Catch, mj.Text("(the failure says:"), mj.Print(mj.Var(n.Name)), mj.Text(")"))
		}
		if g.marker {
			// the catch body belongs to the template the try stands in: its blocks, not those of whatever failed
			n.Catch = append(n.Catch, mj.Text("(catch sees "), &mj.Node{K: "yield", Name: "marker"}, mj.Text(")"))
		}
		if inBlockWithContent {
			n.Catch = append(n.Catch, mj.Text("(handler content:"), &mj.Node{K: "ycontent"}, mj.Text(")"))
		}
		if n.Name != tv && g.n(0, 3, "catchVarReadElsewhere") == 0 {
			// the handler itself never spells the variable: an included template reads it (variables are visible
			// to what is included, so it must be bound)
			n.Name = g.id("qzx")
			g.decls = append(g.decls, n.Name)
			seer := &mj.File{Path: "/inc/" + g.id("handler") + ".jet", Body: []*mj.Node{mj.Text("(seen from the included handler:"), mj.Print(mj.Call("isset", mj.Var(n.Name))), mj.Text(")")}}
			g.p.Files = append(g.p.Files, seer)
			n.Catch = []*mj.Node{mj.Text("(caught)"), {K: "include", E: mj.Str(seer.Path)}}
			g.labels["catch-variable-only-read-by-an-included-template"] = true
		}
		g.labels["catch-with-variable"] = true
		if g.n(0, 5, "catchfails") == 0 {
			n.Catch = append(n.Catch, g.failure())
			g.labels["catch-fails"] = true
		}
	}
	out := []*mj.Node{mj.Let(tv, mj.Str(tv+"-value")), mj.Text("before|"), n, mj.Text("|after")}
	// probes: same context, variables, content, destination
	out = append(out, mj.Text("(.="), mj.Print(mj.Dot()), mj.Text(")("+tv+"="), mj.Print(mj.Var(tv)), mj.Text(")"))
	for _, d := range g.decls {
		out = append(out, mj.Text("("+d+":"), mj.Print(mj.Call("isset", mj.Var(d))), mj.Text(")"))
	}
	if inBlockWithContent {
		out = append(out, mj.Text("{content:"), &mj.Node{K: "ycontent"}, mj.Text("}"))
	}
	if g.marker {
		out = append(out, mj.Text("(after try "), &mj.Node{K: "yield", Name: "marker"}, mj.Text(")"))
	}
	out = append(out, mj.Text("more text"))
	return out
}

func genC13(t *rapid.T) c13Case {
	g := &c13Gen{t: t, labels: map[string]bool{}}
	g.p = &mj.Program{Entry: "/main.jet", Vars: map[string]mj.Recipe{}}
	failVars(g.p)
	d := mj.RStr("CTX")
	g.p.Data = &d
	if g.n(0, 4, "executeWithoutData") == 0 {
		// Execute(w, vars, nil): "no context" is a state a failed try body has to give back like any other
		g.p.Data = nil
		g.labels["executed-without-data"] = true
	}
	g.lib = &mj.File{Path: "/lib.jet", Body: []*mj.Node{
		{K: "block", Name: "wrap", Params: []mj.Param{{Name: "wp", E: mj.Str("wd")}}, Body: []*mj.Node{mj.Text("{w:"), {K: "ycontent"}, mj.Text(":w}")}},
	}}
	main := &mj.File{Path: "/main.jet", Imports: []string{"/lib.jet"}}
	g.p.Files = []*mj.File{main, g.lib}
	g.marker = g.n(0, 2, "markerBlocks") == 0
	if g.marker {
		g.labels["blocks-of-the-same-name-in-includer-and-included"] = true
	}
	var body []*mj.Node
	switch g.n(0, 4, "placement") {
	case 0:
		g.labels["placed:top"] = true
		body = g.tryStmt(false)
	case 1:
		g.labels["placed:in-block-with-content"] = true
		name := g.id("host")
		g.lib.Body = append(g.lib.Body, &mj.Node{K: "block", Name: name, Body: append([]*mj.Node{mj.Text("{host:")}, append(g.tryStmt(true), mj.Text(":host}"))...)})
		body = []*mj.Node{{K: "yield", Name: name, HasCont: true, Content: []*mj.Node{mj.Text("<host content>")}}}
	case 2:
		g.labels["placed:in-range"] = true
		body = []*mj.Node{{K: "range", E: mj.Call("slice", mj.Str("r1"), mj.Str("r2")), Body: g.tryStmt(false)}, mj.Text("(.="), mj.Print(mj.Dot()), mj.Text(")")}
	case 4:
		// the try statement lives in a template that is run through exec(): its output is thrown away, but it
		// still stops the error, runs its catch, and lets the statements after it (the return) run
		g.labels["placed:in-exec"] = true
		f := &mj.File{Path: "/inc/hostexec.jet", Body: append(g.tryStmt(false), &mj.Node{K: "return", E: mj.Str("host-finished")})}
		g.p.Files = append(g.p.Files, f)
		body = []*mj.Node{mj.Text("(exec:"), mj.Print(mj.Call("exec", mj.Str(f.Path))), mj.Text(")(.="), mj.Print(mj.Dot()), mj.Text(")")}
	default:
		g.labels["placed:in-include"] = true
		f := &mj.File{Path: "/inc/host.jet", Body: g.tryStmt(false)}
		g.p.Files = append(g.p.Files, f)
		body = []*mj.Node{{K: "include", E: mj.Str(f.Path), Ctx: mj.Str("hostctx")}, mj.Text("(.="), mj.Print(mj.Dot()), mj.Text(")")}
	}
	main.Body = append(append([]*mj.Node{mj.Text("<main>")}, body...), mj.Text("</main>"))
	if g.marker {
		main.Body = append([]*mj.Node{{K: "block", Name: "marker", Body: []*mj.Node{mj.Text("[marker of main]")}}}, main.Body...)
	}
	failFiles(g.p)
	c := c13Case{Prog: g.p}
	src := mj.NewPrinter().Sources(g.p)
	var paths []string
	for p := range src {
		paths = append(paths, p)
	}
	sort.Strings(paths)
	for _, p := range paths {
		c.Src = append(c.Src, p+": "+src[p])
	}
	for k := range g.labels {
		c.Labels = append(c.Labels, k)
	}
	sort.Strings(c.Labels)
	return c
}

func judgeC13(c c13Case) (v core.Verdict) {
	want, discard := mj.ModelRun(c.Prog, c18ModelSetup)
	if discard != "" {
		v.Discard = "model:" + discard
		return
	}
	got, _, _ := mj.EngineRun(c.Prog, failFuncs())
	v.Label(c.Labels...)
	below, fails := false, false
	for _, l := range c.Labels {
		if len(l) > 6 && l[:6] == "below:" {
			below = true
		}
		if l == "body-fails" {
			fails = true
		}
	}
	v.NonTrivial = below && fails
	desc := fmt.Sprintf("template set %q", c.Src)
	if got.Panicked {
		v.Failf("%s: Execute panicked: %s", desc, got.PanicVal)
		return
	}
	if want.Err != nil {
		v.Label("expect-error")
		if got.Err == nil {
			v.Failf("%s: must fail (%s) but rendered %q", desc, want.Err.Msg, got.Out)
		}
		return
	}
	if got.Err != nil {
		v.Failf("%s: failed with %v; the model renders %q", desc, got.Err, want.Out)
		return
	}
	if got.Out != want.Out {
		v.Failf("%s:\n got  %q\n want %q", desc, got.Out, want.Out)
		return
	}
	// the same execution into a destination that refuses, once, the Write that hands over the output of a try body
	// (bodies begin with the text "<try>"): a body that finished reaches the writer - or Execute says that it did not
	p2 := *c.Prog
	p2.FailOnPrefix = "<try>"
	got2, _, _ := mj.EngineRun(&p2, failFuncs())
	switch {
	case got2.Panicked:
		v.Failf("%s: with a destination that refuses one Write, Execute panicked: %s", desc, got2.PanicVal)
	case got2.PanicVal != "refused":
		if got2.Err != nil || got2.Out != want.Out {
			v.Failf("%s: second execution (nothing was refused) gave %s, the first one %q", desc, got2, want.Out)
		}
	default:
		v.Label("destination-refused-the-output-of-a-try-body")
		if got2.Err == nil {
			v.Failf("%s: the destination refused the Write that handed over the output of a try body, yet Execute returned nil; the destination has %q of %q", desc, got2.Out, want.Out)
		} else if !strings.HasPrefix(want.Out, got2.Out) {
			// (the body did finish: its failed delivery is the destination's failure, not one a catch clause handles)
			v.Failf("%s: the destination refused the Write that handed over the output of a try body; what it has received, %q, is not the beginning of %q", desc, got2.Out, want.Out)
		}
	}
	return
}

func TestC13(t *testing.T) {
	core.Run(t, "C13",
		"try statements whose body nests 0-4 of {range rebinding '.', range with := / = loop variables, if with declaration, block with parameters and context, yield with content, yielded block body, include with context, block yielded with a context by a Go helper (Runtime.YieldBlock), inner try (caught / failing in its catch)} around a failing action of any of 30 kinds incl. a Go runtime error in a user function and output produced by calls inside conditions / assignments (or none: success case), also as the only statement of a body without any text, with no catch / catch / catch with variable (whose body may fail too), executed with data or without any (a fifth of the cases), placed at top level, in a block invoked with content, in a range or in an include; probes after the statement print '.', variables, isset of every name declared inside, yield content and more text; catch handlers that yield the content of the block they stand in or read the error variable only through an included template; also: values that render themselves in pieces and fail after a piece that ends inside a character; a Go function that panics with a string full of '%' whose catch variable is printed; round 10: a function that panics with a nil pointer in an error value; the refusing destination embeds a bytes.Buffer and overrides Write only; oracle = MiniJet reference interpreter with transactional try, plus a second execution into a destination that refuses, once, the Write handing over a finished try body (an error, and a prefix of the output); non-trivial = a failure below >=1 construct",
		genC13, judgeC13)
}

func TestC13Replay(t *testing.T) { core.Replay(t, "C13", judgeC13) }
