package checks

// Data zoo for C06 / C17: a fixed family of Go types with exported,
// unexported, embedded (by value and by pointer), shadowed fields, value and
// pointer methods, maps with string / int / named-string keys, typed and
// interface slices, arrays, strings, multi-level pointers and interface
// fields; plus a direct resolver used as the oracle.

import (
	"fmt"
	"reflect"
	"sort"
	"strconv"
)

type ZKey string

type ZBase struct {
	ID    int
	Title string
}

func (b ZBase) BaseHello() string { return "base-hello-" + b.Title }

type ZPEmb struct {
	PName string
	Deep  string
}

type ZInner struct {
	Val    int
	Name   string
	hidden int
	Tags   []string
	Next   *ZInner
}

func (i ZInner) Hello() string     { return "hello-" + i.Name }
func (i *ZInner) PtrHello() string { return "ptrhello-" + i.Name }
func (i ZInner) Add(n int) int     { return i.Val + n }

// outer field declared BEFORE the embedded struct that has a field of the same name
type ZShadowFirst struct {
	Title string
	ZBase
}

// outer field declared AFTER the embedded struct
type ZShadowLast struct {
	ZBase
	Title string
}

// two levels: Title of ZShadowFirst (depth 1) must win over ZBase.Title (depth 2)
type ZDeep struct {
	ZShadowFirst
	Extra string
}

// three levels of by-value embedding with several fields in the innermost struct
type ZCore struct{ First, Second, Third string }
type ZN2 struct{ ZCore }
type ZN1 struct {
	ZN2
	Mid string
}
type ZN0 struct {
	ZN1
	Top string
}

// a field promoted through an embedded pointer (depth 1) hides a field of the same name that is
// promoted through two levels of by-value embedding (depth 2)
type ZXA struct {
	X     int
	OnlyA string
	Opt   interface{}
}
type ZXB struct{ ZXA }
type ZXP struct {
	X     int
	OnlyP string
	Opt   interface{}
}
type ZPtrShallow struct {
	ZXB
	*ZXP
}

// a struct that embeds the one above: the promoted names mean the same one level further out
type ZWrapPS struct{ ZPtrShallow }

// two struct types that are both called "ZRec" (declared inside two functions): same name, another layout
func zRecA() interface{} {
	type ZRec struct {
		ID    int
		token string
		Label string
	}
	return ZRec{ID: 101, token: "s3cr3t-a", Label: "rec-a"}
}
func zRecB() interface{} {
	type ZRec struct {
		token string
		Label string
		ID    int
	}
	return ZRec{token: "s3cr3t-b", Label: "rec-b", ID: 202}
}

// the same with the embedded pointer one level down (depth 2) and the by-value field at depth 3
type ZXMeta struct{ *ZXP }
type ZXC struct{ ZXB }
type ZPtrNested struct {
	ZXMeta
	ZXC
}

// a method of the outer struct has the name of a field promoted from an embedded struct: as in Go the
// selector denotes the method (depth 0), the promoted field (depth 1) is only reachable through ZBase
type ZDoc struct{ ZBase }

func (d ZDoc) Title() string { return "title-method-of-doc" }

// a slot of an interface type that has methods (not interface{}): what is behind it is reached all the same
type ZShape interface{ Area() int }
type ZRect struct {
	W, H  int
	Label string
}

func (r ZRect) Area() int        { return r.W * r.H }
func (r ZRect) Describe() string { return "rect-" + r.Label }

// exported fields promoted from an embedded struct whose type name is unexported
type zhidden struct {
	HID   int
	HName string
}
type ZDocU struct {
	zhidden
	Title string
}
type ZDocUP struct {
	*zhidden
	Title string
}

// ZAny is an empty interface type with a name of its own: what sits in a slot of this type is reached (and judged
// nil or not) like what sits in an interface{}
type ZAny interface{}

type ZTally int

func (t ZTally) Twice() int    { return int(t) * 2 }
func (t *ZTally) Bump() int    { return int(*t) + 1 }
func (t ZTally) Add(n int) int { return int(t) + n }

type ZStack []string

func (s ZStack) Depth() int   { return len(s) }
func (s *ZStack) Top() string { return (*s)[len(*s)-1] }

type ZOuter struct {
	ZBase
	*ZPEmb
	Name   string
	Num    int
	U8     uint8
	F      float64
	B      bool
	In     ZInner
	PIn    *ZInner
	PPIn   **ZInner
	Items  []int
	Strs   []string
	Anys   []interface{}
	Arr    [3]int
	M      map[string]int
	MI     map[int]string
	MN     map[ZKey]string
	MA     map[string]interface{}
	MP     map[string]*ZInner
	MK     map[interface{}]string
	Tally  ZTally  // defined non-struct types with value and pointer methods
	PTally *ZTally // nil: a value-receiver method cannot be called through it
	QTally *ZTally
	AnyNil ZAny // a typed nil pointer behind a named empty interface
	AnyMap ZAny // a nil map
	AnyVal ZAny
	AnyL   []ZAny
	AnyM   map[string]ZAny
	Stack  ZStack
	M8     map[uint8]string  // keys that a number may not fit
	PM     *map[string]int   // a map behind a pointer
	ME     map[string]string // has the empty string as a key
	MAK    map[[2]interface{}]string
	M64    map[int64]string  // has the key -1
	MU64   map[uint64]string // has the key MaxUint64
	Iface  interface{}
	SF     ZShadowFirst
	SL     ZShadowLast
	DP     ZDeep
	Word   string
	Nest   ZN0
	Win    []string // a window on a longer backing array: cap > len
	PS     ZPtrShallow
	PN     ZPtrNested
	WPS    ZWrapPS
	RecA   interface{}
	RecB   interface{}
	Shape  ZShape
	PShape ZShape
	Shapes []ZShape
	MShape map[string]ZShape
	DocU   ZDocU
	DocUP  ZDocUP
	// unnamed struct types: their method sets hold the methods promoted from what they embed
	Anon struct {
		ZInner
		Extra string
	}
	PAnon *struct {
		*ZInner
		Extra string
	}
	Doc     ZDoc
	private string
}

func (o ZOuter) Greeting() string     { return "greet-" + o.Name }
func (o *ZOuter) PtrGreeting() string { return "ptrgreet-" + o.Name }
func (o ZOuter) Inner() ZInner        { return o.In }
func (o ZOuter) InnerPtr() *ZInner    { return o.PIn }

func zooRoot(variant int) interface{} {
	in := &ZInner{Val: 7, Name: "pin", Tags: []string{"t0", "t1"}, Next: &ZInner{Val: 8, Name: "next"}}
	o := ZOuter{
		ZBase: ZBase{ID: 11, Title: "base-title"},
		ZPEmb: &ZPEmb{PName: "pemb-name", Deep: "pemb-deep"},
		Name:  "outer", Num: 42, U8: 200, F: 2.5, B: true,
		In:    ZInner{Val: 3, Name: "in", Tags: []string{"a"}},
		PIn:   in,
		PPIn:  &in,
		Items: []int{10, 20, 30}, Strs: []string{"s0", "s1"}, Anys: []interface{}{"any0", 5, ZInner{Val: 9, Name: "anyinner"}, nil},
		Arr: [3]int{4, 5, 6},
		M:   map[string]int{"one": 1, "zero": 0}, MI: map[int]string{1: "i-one", 2: ""}, MN: map[ZKey]string{"nk": "named-key-value"},
		MA:    map[string]interface{}{"s": "str", "n": nil, "in": &ZInner{Val: 1, Name: "ma-in"}, "m": map[string]int{"deep": 99}},
		MP:    map[string]*ZInner{"p": {Val: 2, Name: "mp-p"}, "nilp": nil},
		Tally: 5, Stack: ZStack{"bottom", "top"},
		QTally: func() *ZTally { t := ZTally(9); return &t }(),
		AnyNil: (*ZInner)(nil), AnyMap: map[string]int(nil), AnyVal: ZInner{Val: 31, Name: "any-val"},
		AnyL:  []ZAny{"any-elem", (*ZInner)(nil), 5, []string(nil)},
		AnyM:  map[string]ZAny{"p": (*ZInner)(nil), "v": "any-entry", "m": map[string]int(nil)},
		M8:    map[uint8]string{44: "under-44", 0: "under-0"},
		PM:    &map[string]int{"pk": 5},
		MK:    map[interface{}]string{"ik": "interface-key", ZKey("ik"): "entry-under-a-key-of-a-defined-string-type", 7: "entry-under-an-int-key", ZKey("only-named"): "entry-whose-key-exists-as-ZKey-only", "only-plain": "entry-whose-key-exists-as-string-only"},
		ME:    map[string]string{"": "value-under-empty-key", "k": "v"},
		MAK:   map[[2]interface{}]string{{"a", 1}: "entry-under-an-array-key"},
		M64:   map[int64]string{-1: "entry-under-minus-one", 5: "entry-under-five"},
		MU64:  map[uint64]string{1<<64 - 1: "entry-under-max-uint64", 5: "entry-under-five"},
		Iface: ZInner{Val: 5, Name: "iface-inner"},
		SF:    ZShadowFirst{Title: "sf-outer-title", ZBase: ZBase{ID: 1, Title: "sf-base-title"}},
		SL:    ZShadowLast{ZBase: ZBase{ID: 2, Title: "sl-base-title"}, Title: "sl-outer-title"},
		DP:    ZDeep{ZShadowFirst: ZShadowFirst{Title: "dp-shadow-title", ZBase: ZBase{ID: 3, Title: "dp-base-title"}}, Extra: "x"},
		Word:  "hello",
		Nest:  ZN0{ZN1: ZN1{ZN2: ZN2{ZCore: ZCore{First: "one", Second: "two", Third: "three"}}, Mid: "mid"}, Top: "top"},
		Win:   []string{"w0", "w1", "w2", "SECRET-1", "SECRET-2"}[:3],
		Anon: struct {
			ZInner
			Extra string
		}{ZInner{Val: 21, Name: "anon-inner"}, "anon-extra"},
		PAnon: &struct {
			*ZInner
			Extra string
		}{&ZInner{Val: 22, Name: "panon-inner"}, "panon-extra"},
		Doc:    ZDoc{ZBase{ID: 5, Title: "title-field-hidden-by-the-method"}},
		Shape:  ZRect{W: 2, H: 3, Label: "val"},
		PShape: &ZRect{W: 4, H: 5, Label: "ptr"},
		Shapes: []ZShape{ZRect{W: 1, H: 1, Label: "s0"}, &ZRect{W: 2, H: 2, Label: "s1"}},
		MShape: map[string]ZShape{"sq": ZRect{W: 3, H: 3, Label: "sq"}},
		DocU:   ZDocU{zhidden: zhidden{HID: 71, HName: "hidden-val"}, Title: "docu"},
		DocUP:  ZDocUP{zhidden: &zhidden{HID: 72, HName: "hidden-ptr"}, Title: "docup"},
		PS:     ZPtrShallow{ZXB: ZXB{ZXA{X: 1, OnlyA: "only-a", Opt: "opt-a"}}, ZXP: &ZXP{X: 2, OnlyP: "only-p", Opt: (*ZInner)(nil)}},
		WPS:    ZWrapPS{ZPtrShallow{ZXB: ZXB{ZXA{X: 11, OnlyA: "only-a-wrapped", Opt: "opt-a-wrapped"}}, ZXP: &ZXP{X: 12, OnlyP: "only-p-wrapped"}}},
		RecA:   zRecA(),
		RecB:   zRecB(),
		PN:     ZPtrNested{ZXMeta: ZXMeta{&ZXP{X: 4, OnlyP: "only-p-nested", Opt: map[string]int(nil)}}, ZXC: ZXC{ZXB{ZXA{X: 3, OnlyA: "only-a-nested", Opt: "opt-a-nested"}}}},
	}
	switch variant {
	case 0:
		return &o
	case 1:
		return o
	case 2: // nil pointers / nil maps / nil interface everywhere
		o.ZPEmb, o.PIn, o.PPIn, o.M, o.MA, o.Iface, o.Items = nil, nil, nil, nil, nil, nil, nil
		o.PS.ZXP = nil
		o.PN.ZXP = nil
		return &o
	case 3: // typed nil in the interface, pointer to nil pointer
		var np *ZInner
		o.Iface = np
		o.PPIn = &np
		return &o
	case 4: // reached through a map and an interface slice
		return map[string]interface{}{"o": &o, "list": []interface{}{o, &o}}
	case 6: // *interface{} (what json.Unmarshal into an interface variable leaves behind) holding the struct
		var doc interface{} = o
		return &doc
	case 7: // *interface{} holding a pointer
		var doc interface{} = &o
		return &doc
	default:
		p := &o
		return &p // **ZOuter
	}
}

type zStep struct {
	Kind  string `json:"kind"`            // field | method | index | key | slice
	Name  string `json:"name,omitempty"`  // field / method / string key
	I     int    `json:"i,omitempty"`     // index / int key / slice low
	J     int    `json:"j,omitempty"`     // slice high (-1 = omitted)
	Spell string `json:"spell,omitempty"` // dot | bracket
	Arg   int    `json:"arg,omitempty"`   // method argument (Add)
	Var   string `json:"var,omitempty"`   // index / key written as this variable instead of a literal
	Undef bool   `json:"undef,omitempty"` // ... which is not defined
	// Bound (slice): a bound that is written but has no value: "lo-nil" [nil:J], "hi-nil" [I:nil],
	// "lo-absent" [nokeys.k:J], "hi-absent" [I:nokeys["k"]] (nokeys is an empty map variable)
	Bound string `json:"bound,omitempty"`
}

// variables that C06 / C17 templates can use as keys of the interface-keyed map
var zIfaceKeys = map[string]interface{}{"keyNamed": ZKey("ik"), "keyPlain": "ik", "keyInt": 7, "keyAbsent": ZKey("nope"), "keySlice": []int{1}, "keyDeepUnhashable": zDeepKey{V: []int{1}},
	"keyOnlyNamed": ZKey("only-named"), "keyPlainOfNamed": "only-named", "keyNamedOfPlain": ZKey("only-plain"),
	// keys of an array type with interface elements: comparable as a type, hashable unless an element holds a slice
	"keyCodePoint": int32('k'),
	// numbers for maps with 64-bit integer keys: a number that is not representable in the key type is not in the map
	"keyUMax": uint64(1<<64 - 1), "keyNeg1": -1, "keyFive8": int8(5), "keyBigU": uint64(1 << 63),
	// slices where an array key is wanted: not keys (whatever reflect would be willing to convert)
	"keySliceLong": []interface{}{"a", 1}, "keySliceShort": []interface{}{"a"},
	"keyArr": [2]interface{}{"a", 1}, "keyArrAbsent": [2]interface{}{"b", 2}, "keyArrUnhashable": [2]interface{}{[]int{1}, 2}}

func zIsInteger(k reflect.Kind) bool { return k >= reflect.Int && k <= reflect.Uintptr }

// zHashable: whether v can be used as a map key (the type may say yes and the value no)
func zHashable(v interface{}) (ok bool) {
	defer func() {
		if recover() != nil {
			ok = false
		}
	}()
	m := map[interface{}]bool{}
	m[v] = true
	return true
}

// zDeepKey is comparable as a type; with a slice in V a value of it cannot be hashed all the same
type zDeepKey struct{ V interface{} }

type zStatus int

const (
	zOK  zStatus = iota
	zNil         // absent map key: nil
	zErr         // must be an error
)

func zDeref(v reflect.Value) (reflect.Value, bool) {
	for v.IsValid() && (v.Kind() == reflect.Ptr || v.Kind() == reflect.Interface) {
		if v.IsNil() {
			return v, true
		}
		v = v.Elem()
	}
	return v, false
}

// zResolve is the oracle: plain reflect look-ups, Go's own field promotion rules, no cache.
func zResolve(root interface{}, steps []zStep) (val reflect.Value, st zStatus, why string) {
	v := reflect.ValueOf(root)
	for si, s := range steps {
		last := si == len(steps)-1
		if !v.IsValid() {
			return v, zErr, "step on nil"
		}
		if s.Undef {
			return v, zErr, "undefined index variable"
		}
		switch s.Kind {
		case "method", "methodval":
			// methods of T always; methods of *T when the value is addressable (reached through a pointer)
			d, isNil := zDeref(v)
			if isNil {
				return v, zErr, "method on nil"
			}
			var m reflect.Value
			if d.CanAddr() {
				m = d.Addr().MethodByName(s.Name)
			} else {
				m = d.MethodByName(s.Name)
			}
			if !m.IsValid() {
				return v, zErr, "no such method"
			}
			if s.Kind == "methodval" { // the method itself, named like a field and not called
				v = m
				break
			}
			var args []reflect.Value
			if m.Type().NumIn() == 1 {
				args = append(args, reflect.ValueOf(s.Arg))
			}
			v = m.Call(args)[0]
		case "field":
			d, isNil := zDeref(v)
			if isNil {
				return v, zErr, "field of nil"
			}
			switch d.Kind() {
			case reflect.Struct:
				sf, ok := d.Type().FieldByName(s.Name)
				if !ok || sf.PkgPath != "" {
					return v, zErr, "missing or unexported field"
				}
				// walk the index path by hand: a nil embedded pointer is a nil dereference
				cur := d
				for _, ix := range sf.Index {
					if cur.Kind() == reflect.Ptr {
						if cur.IsNil() {
							return v, zErr, "nil embedded pointer"
						}
						cur = cur.Elem()
					}
					cur = cur.Field(ix)
				}
				v = cur
			case reflect.Map:
				if d.Type().Key().Kind() != reflect.String {
					return v, zErr, "name on non-string map"
				}
				e := d.MapIndex(reflect.ValueOf(s.Name).Convert(d.Type().Key()))
				if !e.IsValid() {
					if !last {
						return reflect.Value{}, zErr, "step on the nil an absent key yields"
					}
					return reflect.Value{}, zNil, "absent key"
				}
				v = e
			default:
				return v, zErr, "field of " + d.Kind().String()
			}
		case "key":
			d, isNil := zDeref(v)
			if isNil && d.Kind() != reflect.Map {
				return v, zErr, "key of nil"
			}
			if d.Kind() != reflect.Map {
				return v, zErr, "int key on non-map"
			}
			k := reflect.ValueOf(s.I).Convert(d.Type().Key())
			e := d.MapIndex(k)
			if k.Convert(reflect.TypeOf(0)).Int() != int64(s.I) || (s.I < 0 && k.CanUint()) {
				e = reflect.Value{} // the number does not fit the key type: no such key
			}
			if !e.IsValid() {
				if !last {
					return reflect.Value{}, zErr, "step on the nil an absent key yields"
				}
				return reflect.Value{}, zNil, "absent key"
			}
			v = e
		case "ikey":
			d, isNil := zDeref(v)
			if d.Kind() != reflect.Map || (isNil && d.Kind() != reflect.Map) {
				return v, zErr, "key on non-map"
			}
			if !zHashable(zIfaceKeys[s.Var]) {
				return v, zErr, "key that cannot be hashed"
			}
			if kv, kt := reflect.ValueOf(zIfaceKeys[s.Var]), d.Type().Key(); zIsInteger(kv.Kind()) && zIsInteger(kt.Kind()) {
				// a number is the key it is equal to, if the key type has one
				c := kv.Convert(kt)
				neg := func(x reflect.Value) bool { return x.CanInt() && x.Int() < 0 }
				if c.Convert(kv.Type()).Interface() != kv.Interface() || neg(kv) != neg(c) {
					if !last {
						return reflect.Value{}, zErr, "step on the nil an absent key yields"
					}
					return reflect.Value{}, zNil, "number that the key type cannot hold"
				}
				e := d.MapIndex(c)
				if !e.IsValid() {
					if !last {
						return reflect.Value{}, zErr, "step on the nil an absent key yields"
					}
					return reflect.Value{}, zNil, "absent key"
				}
				v = e
				break
			}
			if !reflect.TypeOf(zIfaceKeys[s.Var]).AssignableTo(d.Type().Key()) {
				return v, zErr, "key of another type"
			}
			e := d.MapIndex(reflect.ValueOf(zIfaceKeys[s.Var]))
			if !e.IsValid() {
				if !last {
					return reflect.Value{}, zErr, "step on the nil an absent key yields"
				}
				return reflect.Value{}, zNil, "absent key"
			}
			v = e
		case "index":
			d, isNil := zDeref(v)
			if isNil {
				return v, zErr, "index of nil"
			}
			switch d.Kind() {
			case reflect.Slice, reflect.Array, reflect.String:
				if s.I < 0 || s.I >= d.Len() {
					return v, zErr, "index out of range"
				}
				v = d.Index(s.I)
			default:
				return v, zErr, "index of " + d.Kind().String()
			}
		case "slice":
			if s.Bound != "" {
				return v, zErr, "slice bound without a value"
			}
			d, isNil := zDeref(v)
			if isNil {
				return v, zErr, "slice of nil"
			}
			switch d.Kind() {
			case reflect.Slice, reflect.Array, reflect.String:
				hi := s.J
				if hi < 0 {
					hi = d.Len()
				}
				if s.I < 0 || s.I > hi || hi > d.Len() {
					return v, zErr, "slice bounds"
				}
				if d.Kind() == reflect.Array && !d.CanAddr() {
					c := reflect.New(d.Type()).Elem()
					c.Set(d)
					d = c
				}
				v = d.Slice(s.I, hi)
			default:
				return v, zErr, "slice of " + d.Kind().String()
			}
		}
		for v.IsValid() && v.Kind() == reflect.Interface && !v.IsNil() {
			v = v.Elem()
		}
	}
	return v, zOK, ""
}

// zOptions enumerates the steps that can follow value v: valid ones first, then invalid ones.
func zOptions(v reflect.Value) (valid, invalid []zStep) {
	d, isNil := zDeref(v)
	if !v.IsValid() {
		return nil, []zStep{{Kind: "field", Name: "Anything"}, {Kind: "index", I: 0}}
	}
	if isNil && d.Kind() != reflect.Map {
		return nil, []zStep{{Kind: "field", Name: "Name"}, {Kind: "index", I: 0}, {Kind: "field", Name: "Val"}, {Kind: "method", Name: "Hello"}, {Kind: "method", Name: "Twice"}}
	}
	// methods (value receivers always; pointer receivers when the value is reached through a pointer)
	addMethods := func(t reflect.Type) {
		pt := reflect.PtrTo(t)
		throughPtr := v.Kind() == reflect.Ptr || d.CanAddr()
		for i := 0; i < pt.NumMethod(); i++ {
			m := pt.Method(i)
			_, onValue := t.MethodByName(m.Name)
			if !onValue && !throughPtr {
				continue
			}
			if m.Type.NumIn() > 2 || m.Type.NumOut() != 1 {
				continue
			}
			valid = append(valid, zStep{Kind: "method", Name: m.Name, Arg: 3})
		}
	}
	if d.Kind() != reflect.Struct && d.Kind() != reflect.Interface && d.Type().PkgPath() != "" {
		addMethods(d.Type()) // defined types of other kinds have methods too
	}
	switch d.Kind() {
	case reflect.Struct:
		t := d.Type()
		names := map[string]bool{}
		var collect func(t reflect.Type, depth int)
		collect = func(t reflect.Type, depth int) {
			for i := 0; i < t.NumField(); i++ {
				f := t.Field(i)
				if f.PkgPath == "" || f.Anonymous {
					names[f.Name] = true
				} else {
					invalid = append(invalid, zStep{Kind: "field", Name: f.Name})
				}
				if f.Anonymous && depth < 3 {
					ft := f.Type
					if ft.Kind() == reflect.Ptr {
						ft = ft.Elem()
					}
					if ft.Kind() == reflect.Struct {
						collect(ft, depth+1)
					}
				}
			}
		}
		collect(t, 0)
		var ns []string
		for n := range names {
			ns = append(ns, n)
		}
		sort.Strings(ns)
		for _, n := range ns {
			if _, isMethod := reflect.PtrTo(t).MethodByName(n); isMethod {
				continue // the selector denotes the method; it is offered as a method step below
			}
			if _, st, _ := zResolve(d.Interface(), []zStep{{Kind: "field", Name: n}}); st == zOK {
				valid = append(valid, zStep{Kind: "field", Name: n})
			} else {
				invalid = append(invalid, zStep{Kind: "field", Name: n})
			}
		}
		addMethods(t)
		invalid = append(invalid, zStep{Kind: "field", Name: "NoSuchField"}, zStep{Kind: "method", Name: "NoSuchMethod"}, zStep{Kind: "index", I: 0})
	case reflect.Map:
		keys := d.MapKeys()
		sort.Slice(keys, func(i, j int) bool { return fmt.Sprint(keys[i].Interface()) < fmt.Sprint(keys[j].Interface()) })
		if d.Type().Key().Kind() == reflect.String {
			hasEmpty := false
			for _, k := range keys {
				st := zStep{Kind: "field", Name: k.String()}
				if k.String() == "" {
					st.Spell, hasEmpty = "bracket", true // m[""]: only index syntax can spell it
				}
				valid = append(valid, st)
			}
			valid = append(valid, zStep{Kind: "field", Name: "absentKey", Spell: "bracket"}, zStep{Kind: "field", Name: "absentKey", Spell: "dot"})
			// an integer is not a key of a string-keyed map (and not the one-character string with that code point either)
			invalid = append(invalid, zStep{Kind: "ikey", Var: "keyInt"}, zStep{Kind: "ikey", Var: "keyCodePoint"})
			if !hasEmpty {
				valid = append(valid, zStep{Kind: "field", Name: "", Spell: "bracket"}) // absent empty key
			}
		} else if d.Type().Key().Kind() == reflect.Interface {
			// interface-keyed map: the key is a variable, and its dynamic type is part of the key
			// (unhashable keys: C17's dedicated form)
			for _, name := range []string{"keyNamed", "keyPlain", "keyInt", "keyAbsent", "keyOnlyNamed", "keyPlainOfNamed", "keyNamedOfPlain"} {
				valid = append(valid, zStep{Kind: "ikey", Var: name})
			}
			invalid = append(invalid, zStep{Kind: "ikey", Var: "keySlice"}, zStep{Kind: "ikey", Var: "keyDeepUnhashable"}) // keys that cannot be hashed
		} else if d.Type().Key().Kind() == reflect.Array {
			valid = append(valid, zStep{Kind: "ikey", Var: "keyArr"}, zStep{Kind: "ikey", Var: "keyArrAbsent"})
			invalid = append(invalid, zStep{Kind: "ikey", Var: "keyArrUnhashable"}, zStep{Kind: "ikey", Var: "keySliceLong"}, zStep{Kind: "ikey", Var: "keySliceShort"})
		} else {
			for _, k := range keys {
				if i := k.Convert(reflect.TypeOf(0)); i.Convert(k.Type()).Interface() != k.Interface() || (k.CanUint() && i.Int() < 0) {
					continue // (a key that an int cannot spell)
				}
				valid = append(valid, zStep{Kind: "key", I: int(k.Convert(reflect.TypeOf(0)).Int())})
			}
			valid = append(valid, zStep{Kind: "key", I: 77})
			if k := d.Type().Key().Kind(); k == reflect.Int64 || k == reflect.Uint64 {
				for _, name := range []string{"keyUMax", "keyNeg1", "keyFive8", "keyBigU"} {
					valid = append(valid, zStep{Kind: "ikey", Var: name})
				}
			}
			if k := d.Type().Key().Kind(); k == reflect.Uint8 || k == reflect.Int8 {
				valid = append(valid, zStep{Kind: "key", I: 300}, zStep{Kind: "key", I: 256}) // 300 is not 44, 256 is not 0
			}
		}
	case reflect.Slice, reflect.Array, reflect.String:
		n := d.Len()
		for i := 0; i < n && i < 4; i++ {
			valid = append(valid, zStep{Kind: "index", I: i})
		}
		if n == 0 {
			// nothing to index, but the empty slice of an empty (also of a nil) slice is fine
			valid = append(valid, zStep{Kind: "slice", I: 0, J: -1}, zStep{Kind: "slice", I: 0, J: 0})
		}
		if n > 0 {
			valid = append(valid, zStep{Kind: "slice", I: 0, J: -1}, zStep{Kind: "slice", I: n - 1, J: n}, zStep{Kind: "slice", I: 0, J: n - 1})
		}
		invalid = append(invalid, zStep{Kind: "index", I: n}, zStep{Kind: "index", I: -1}, zStep{Kind: "slice", I: 0, J: n + 2}, zStep{Kind: "slice", I: n + 1, J: -1}, zStep{Kind: "field", Name: "Name"})
		invalid = append(invalid, zStep{Kind: "slice", I: 0, J: n, Bound: "lo-nil"}, zStep{Kind: "slice", I: 0, J: n, Bound: "hi-nil"}, zStep{Kind: "slice", I: 0, J: -1, Bound: "lo-absent"}, zStep{Kind: "slice", I: 1, J: n, Bound: "hi-absent"})
		if n >= 2 {
			invalid = append(invalid, zStep{Kind: "slice", I: 2, J: 1})
		}
	default:
		invalid = append(invalid, zStep{Kind: "field", Name: "Name"}, zStep{Kind: "index", I: 0}, zStep{Kind: "slice", I: 0, J: 1})
	}
	return
}

// zPathString prints base + steps as a Jet expression.
func zPathString(base string, steps []zStep) string {
	s := base
	for i, st := range steps {
		switch st.Kind {
		case "field", "methodval":
			if st.Spell == "bracket" {
				s += "[" + strconv.Quote(st.Name) + "]"
			} else if s == "." && i == 0 {
				s = "." + st.Name
			} else {
				s += "." + st.Name
			}
		case "method":
			arg := ""
			if st.Name == "Add" {
				arg = strconv.Itoa(st.Arg)
			}
			if st.Spell == "bracket" {
				s += "[" + strconv.Quote(st.Name) + "](" + arg + ")"
			} else if s == "." && i == 0 {
				s = "." + st.Name + "(" + arg + ")"
			} else {
				s += "." + st.Name + "(" + arg + ")"
			}
		case "index", "key", "ikey":
			if st.Var != "" {
				s += "[" + st.Var + "]"
			} else {
				s += "[" + strconv.Itoa(st.I) + "]"
			}
		case "slice":
			hi := ""
			if st.J >= 0 {
				hi = strconv.Itoa(st.J)
			}
			lo := strconv.Itoa(st.I)
			if st.I == 0 && st.J >= 0 && st.J%2 == 0 {
				lo = ""
			}
			switch st.Bound {
			case "lo-nil":
				lo = "nil"
			case "hi-nil":
				hi = "nil"
			case "lo-absent":
				lo = "nokeys.k"
			case "hi-absent":
				hi = "nokeys[\"k\"]"
			}
			s += "[" + lo + ":" + hi + "]"
		}
	}
	return s
}
