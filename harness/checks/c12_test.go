package checks

// C12 — evaluation failures are returned as errors naming the file and
// 1-based line of the failing action (for failures Jet detects itself), also
// in included / imported / extended templates; output before the failing
// action is already in the writer, nothing after it is.

import (
	"fmt"
	"sort"
	"strings"
	"testing"

	"jetverif/core"
	"jetverif/jetrun"
	"jetverif/mj"

	"pgregory.net/rapid"
)

type c12Case struct {
	Prog   *mj.Program `json:"prog"`
	Role   string      `json:"role"`
	Action string      `json:"action"`
	Class  string      `json:"class"`
	PosChk bool        `json:"position_checked"`
	Src    []string    `json:"src"`
	Labels []string    `json:"labels,omitempty"`
}

// c12Actions: failing actions by class. pos=false: the error is raised inside a
// called function (built-in or user supplied), so only "error, no panic" is required.
var c12Actions = []struct {
	class, src string
	pos        bool
	partial    string
}{
	{"unknown-identifier", "noSuchVariable", true, ""},
	{"unknown-identifier", "noSuchFunction(1)", true, ""},
	{"unknown-identifier", "1 + noSuchVariable", true, ""},
	{"unknown-identifier", "fstr | noSuchFunction", true, ""},
	{"unknown-field", "fuser.NoSuchField", true, ""},
	{"unknown-field", ".NoSuchField.Deeper", true, ""},
	{"unknown-field", "fuser.secret", true, ""},
	{"unknown-field", "fmap.k.deeper", true, ""},
	{"unknown-method", "fuser.NoSuchMethod()", true, ""},
	{"unknown-block", "yield noSuchBlock()", true, ""},
	{"unknown-block", "yield noSuchBlock() content }}\nline two\n{{ end", true, ""},
	{"unknown-template", `include "/no/such/template.jet"`, true, ""},
	{"unknown-template", `include "./missing" .`, true, ""},
	{"index-range", "fxs[9]", true, ""},
	{"index-range", "fxs[-1]", true, ""},
	{"index-range", "fstr[7]", true, ""},
	{"index-kind", `fxs["a"]`, true, ""},
	{"index-kind", "fnum[0]", true, ""},
	{"index-kind", "fxs[fnil]", true, ""},
	{"index-kind", `fmap[1.5]`, true, ""},
	{"slice-range", "fxs[1:9]", true, ""},
	{"slice-range", "fxs[2:1]", true, ""},
	{"slice-range", "fxs[5:]", true, ""},
	{"slice-range", "fxs[:-1]", true, ""},
	{"slice-range", "fxs[1:-1]", true, ""},
	{"slice-range", "fstr[:fneg]", true, ""},
	{"slice-range", "fstr[fneg:]", true, ""},
	{"slice-kind", `fxs["a":1]`, true, ""},
	{"slice-kind", `fxs[0:"b"]`, true, ""},
	{"slice-kind", "fnum[0:1]", true, ""},
	{"operand-kind", `"a" * 2`, true, ""},
	{"operand-kind", `fstr - 1`, true, ""},
	{"operand-kind", `2 * fstr`, true, ""},
	{"operand-kind", `fnum * fstr`, true, ""},
	{"operand-kind", `1 < fstr`, true, ""},
	{"operand-kind", `fxs < 1`, true, ""},
	{"operand-kind", `fxs + 1`, true, ""},
	{"operand-kind", `-fstr`, true, ""},
	{"operand-kind", `fnum % fxs`, true, ""},
	{"call-non-function", "fnum(1)", true, ""},
	{"call-non-function", "fnum()", true, ""},
	{"call-non-function", "fnum: 1", true, ""},
	{"call-non-function", "1 | fnum", true, ""},
	{"call-non-function", "fuser.Name()", true, ""},
	{"call-non-function", "fstr | fuser.Name", true, ""},
	// call targets in pipe position that evaluate to nothing at all
	{"call-non-function", "fstr | fnil", true, ""},
	{"call-non-function", "fstr | fmap.nokey", true, ""},
	{"call-non-function", "fstr | fuser.Meta.nokey: 1", true, ""},
	{"call-non-function", "fnil(1)", true, ""},
	{"call-non-function", "fnil()", true, ""},
	{"call-non-function", "fnil: 1", true, ""},
	{"call-non-function", "fmap.nokey(1)", true, ""},
	{"call-non-function", "1 + fnil(1)", true, ""},
	{"call-non-function", "if fmap.nokey(1) }}x{{ end", true, ""},
	{"call-non-function", "cv := fnil(1)", true, ""},
	{"call-non-function", "upper(fuser.Meta.nokey(1))", true, ""},
	{"argument-count", "upper()", true, ""},
	{"argument-count", `upper("a", "b")`, true, ""},
	{"argument-count", `"a" | upper: "b"`, true, ""},
	{"argument-count", `fuser.Twice()`, true, ""},
	{"argument-kind", "lower(1)", true, ""},
	{"argument-kind", `repeat("a", "b")`, true, ""},
	{"argument-kind", `fuser.Twice(fxs)`, true, ""},
	{"argument-nil", "upper(fnil)", true, ""},
	{"argument-nil", "fnil | upper", true, ""},
	{"argument-nil", `repeat("a", fnil)`, true, ""},
	{"range-kind", "range fnum }}x{{ end", true, ""},
	{"range-kind", "range fnil }}x{{ end", true, ""},
	{"range-kind", "range fstr }}x{{ end", true, ""},
	{"range-kind", "range i, v := fch }}x{{ end", true, ""},
	// statements that end on a later line than they start: the line is the one of the opening action
	{"range-kind", "range fnum }}\nrow\n{{ end", true, ""},
	{"range-kind", "range fnil }}\nrow\n{{ else }}\nnone\n{{ end", true, ""},
	{"range-kind", "range i, v := fch }}\n\nrow\n\n{{ end", true, ""},
	{"unknown-identifier", "if noSuchVariable }}\nyes\n{{ else }}\nno\n{{ end", true, ""},
	{"unknown-identifier", "if hv := noSuchVariable; hv }}\nyes\n{{ end", true, ""},
	{"unknown-field", "range fuser.NoSuchField }}\nrow\n{{ end", true, ""},
	{"unknown-identifier", "block mlb(p=noSuchVariable) }}\nbody\n{{ end", true, ""},
	{"unknown-template", "include \"/no/such/template.jet\" }}\n{{ fnum", true, ""},
	{"yield-arg-without-value", "yield pblock(p)", true, ""},
	{"yield-arg-without-value", "yield nblock(q)", true, ""},
	// ... also when a variable, a global or a built-in of that name is in sight
	{"yield-arg-without-value", "yield pblock(fnum)", true, ""},
	{"yield-arg-without-value", "yield pblock(p=1, fstr)", true, ""},
	{"yield-arg-without-value", "yield nblock(upper)", true, ""},
	{"yield-arg-without-value", "yield pblock(len)", true, ""},
	{"slot-without-pipe", "upper(_)", true, ""},
	{"slot-without-pipe", `repeat("a", _)`, true, ""},
	{"writer-not-last", `raw: "x" | upper`, true, "x"},
	{"writer-not-last", `"y" | raw | upper`, true, "y"},
	{"writer-not-last", `raw: "x" | isset`, true, "x"},
	{"writer-not-last", `safeHtml: "x" | passthru`, true, "x"},
	{"writer-not-last", `"y" | unsafe | passthru | upper`, true, "y"},
	{"assign-undeclared", "neverDeclared = 1", true, ""},
	{"division-by-zero", "fnum / fzero", true, ""},
	{"division-by-zero", "fnum % fzero", true, ""},
	{"division-by-zero", "7.5 % 0.5", true, ""},
	{"division-by-zero", "ffloat % fhalf", true, ""},
	{"division-by-zero", "fnum % 0.25", true, ""},
	{"nil-deref", "fembnil.PName", true, ""},
	{"nil-deref", "fuser.Friend.Name", true, ""},
	{"index-range", "qv, qok := fxs[9]", true, ""},
	{"index-range", "if qv, qok := fxs[9]; qok }}x{{ end", true, ""},
	{"index-kind", `qv, qok := fxs["a"]`, true, ""},
	{"index-kind", "qv, qok := fnum[0]", true, ""},
	{"index-kind", "qv, qok := fmap[fxs]", true, ""},
	{"unknown-field", `qv, qok := fuser["NoSuchField"]`, true, ""},
	{"nil-deref", `qv, qok := fembnil["PName"]`, true, ""},
	{"function-error", `failfn("boom")`, false, ""},
	{"function-error", `"boom" | failfn`, false, ""},
	{"function-error", `exec("/no/such/template.jet")`, false, ""},
	{"function-error", "len(1)", false, ""},
	{"function-error", "ints(1)", false, ""},
	{"function-error", "ints(3, 1)", false, ""},
	{"function-error", `map("a")`, false, ""},
	{"function-error", "isset()", false, ""},
	{"function-error", "wrappedfn()", false, ""},
	// names that have just gone out of scope are unknown again: the variable of a catch clause after the try, a
	// variable declared in an if body that held a handled failure
	{"unknown-identifier", "try }}{{ noSuchVariable }}{{ catch caughtErr }}c{{ end }}{{ caughtErr", true, "c"},
	{"unknown-identifier", "if true }}{{ inner := 1 }}{{ try }}{{ noSuchVariable }}{{ catch e2 }}d{{ end }}{{ end }}{{ inner", true, "d"},
	{"call-kind", `fnilfn("a")`, true, ""},
	{"call-kind", `fstr | fnilfn`, true, ""},
	{"call-kind", `fholder.F("a")`, true, ""},
	{"argument-kind", `farr4(fxs)`, true, ""},
	{"placeholder", `passthru(_)`, true, ""},
	{"placeholder", `map("a", _)`, true, ""},
	{"range-kind", "range fnilranger.R }}x{{ end", true, ""},
	{"range-kind", "range fsendonly }}x{{ end", true, ""},
	{"unknown-method", "fnilfaces.Err.Error()", true, ""},
	{"unknown-method", "fnilfaces.S.String()", true, ""},
	{"unknown-field", "fnilfaces.Err.Error", true, ""},
	{"range-kind", "range fsendonlyptr }}x{{ end", true, ""},
	{"range-kind", "range fsendonlyholder.Sink }}x{{ end", true, ""},
	{"range-kind", "range fsendonlyholder.PSink }}x{{ end", true, ""},
	{"assign-kind", ".Age = 2", true, ""},
	{"argument-count", `noargs(1)`, false, ""},
	{"argument-count", `fstr | noargs`, false, ""},
	{"argument-count", `noargs: 1, 2`, false, ""},
	{"assign-kind", `fnilstrmap.k = 1`, true, ""},
	{"assign-kind", `fintmap.foo = "x"`, true, ""},
	{"argument-kind", `repeat("a", 0 - 1)`, false, ""},
	{"argument-kind", `fstr | repeat: fneg`, false, ""},
	{"assign-kind", `fuser.Name = "x"`, true, ""},
	{"assign-kind", `fpuser.Age = "x"`, true, ""},
	{"index-kind", `fikmap[fxs]`, true, ""},
	{"nil-deref", "fnilinner.Hello()", true, ""},
	{"function-error", "fstr | wrappedfn", false, ""},
	{"function-error", "x := wrappedfn(1, 2)", false, ""},
}

type c12Gen struct {
	t      *rapid.T
	p      *mj.Program
	uniq   int
	labels map[string]bool
	blocks []*mj.Node // further blocks for the imported library
}

func (g *c12Gen) n(lo, hi int, l string) int { return rapid.IntRange(lo, hi).Draw(g.t, l) }
func (g *c12Gen) id(p string) string         { g.uniq++; return fmt.Sprintf("%s%d", p, g.uniq) }

// filler: content that renders fine and moves the line counter around.
func (g *c12Gen) filler() []*mj.Node {
	var out []*mj.Node
	for k := g.n(0, 4, "nfill"); k > 0; k-- {
		switch g.n(0, 7, "fill") {
		case 0:
			out = append(out, mj.Text(g.id("line")+"\nsecond\n"))
		case 1:
			out = append(out, &mj.Node{K: "comment", Text: " a comment\nspanning\nlines "})
		case 2:
			out = append(out, &mj.Node{K: "print", E: mj.Var("fstr"), TrimL: g.n(0, 1, "tl") == 0, TrimR: g.n(0, 1, "tr") == 0})
		case 3:
			out = append(out, mj.Text("  \n\t\n"))
		case 4:
			out = append(out, mj.Let(g.id("fv"), mj.Num(1)), mj.Print(mj.Chain(mj.Var("fembok"), "PName")))
		case 5:
			out = append(out, mj.Text(g.id("t")), mj.Print(mj.Var("fnum")), mj.Text(" same line "))
		case 6:
			out = append(out, &mj.Node{K: "range", E: mj.Var("fxs"), Body: []*mj.Node{mj.Text("item\n")}})
		default:
			out = append(out, mj.Text("\n"))
		}
	}
	return out
}

func (g *c12Gen) nest(depth int, inner []*mj.Node) []*mj.Node {
	if depth <= 0 {
		return inner
	}
	in := append(append(g.filler(), g.nest(depth-1, inner)...), g.filler()...)
	k := g.n(0, 5, "nestkind")
	g.labels[[]string{"in:if", "in:range", "in:block", "in:yield-content", "in:else", "in:content-of-a-block-with-declaring-lists"}[k]] = true
	switch k {
	case 5:
		// the content is rendered from inside two lists of the block's body that have each declared a variable
		name := g.id("dblk")
		g.blocks = append(g.blocks, &mj.Node{K: "block", Name: name, Body: []*mj.Node{mj.Let(g.id("outerdecl"), mj.Num(1)),
			mj.If(mj.Bool(true), []*mj.Node{mj.Let(g.id("innerdecl"), mj.Num(2)), {K: "ycontent"}}, nil)}})
		return []*mj.Node{mj.Let(g.id("sitedecl"), mj.Num(0)), {K: "yield", Name: name, HasCont: true, Content: in}}
	case 0:
		return []*mj.Node{mj.If(mj.Bool(true), in, nil)}
	case 1:
		return []*mj.Node{{K: "range", Names: []string{g.id("i")}, Decl: true, E: mj.Call("slice", mj.Str("only")), Body: in}}
	case 2:
		return []*mj.Node{{K: "block", Name: g.id("nb"), Body: in}}
	case 3:
		return []*mj.Node{{K: "yield", Name: "wrap", HasCont: true, Content: in}}
	default:
		return []*mj.Node{mj.If(mj.Bool(false), []*mj.Node{mj.Text("no")}, in)}
	}
}

func genC12(t *rapid.T) c12Case {
	g := &c12Gen{t: t, labels: map[string]bool{}}
	pMain, pLib, pPart, pBase := "/main.jet", "/lib/blocks.jet", "/inc/deep/part.jet", "/layouts/base.jet"
	if g.n(0, 5, "percentInPaths") == 0 {
		// template names with a percent sign (URL-escaped names, "50%off"): a name is data, wherever it is reported
		pMain, pLib, pPart, pBase = "/m%sain.jet", "/lib/100%d/blocks.jet", "/inc/50%off/part%20one.jet", "/layouts/caf%C3%A9.jet"
		g.labels["percent-sign-in-template-names"] = true
	}
	g.p = &mj.Program{Entry: pMain, Vars: map[string]mj.Recipe{}}
	failVars(g.p)
	g.p.Vars["fstr"] = mj.RStr("str")
	g.p.Vars["fzero"] = mj.RInt(0)
	g.p.Vars["fneg"] = mj.RInt(-1)
	g.p.Vars["ffloat"] = mj.RFloat(7.5)
	g.p.Vars["fhalf"] = mj.RFloat(0.5)
	g.p.Vars["fembnil"] = mj.Recipe{T: "emb", S: ""}
	g.p.Vars["fembok"] = mj.Recipe{T: "emb", S: "promoted"}
	g.p.Vars["fmap"] = mj.Recipe{T: "map[string]int", Keys: []string{"k"}, Is: []int64{1}}
	g.p.Vars["fch"] = mj.Recipe{T: "chan int", Is: []int64{1}}
	g.p.Vars["fnilfn"] = mj.Recipe{T: "nilfunc-string"}
	g.p.Vars["fholder"] = mj.Recipe{T: "funcholder"}
	g.p.Vars["farr4"] = mj.Recipe{T: "arr4func"}
	g.p.Vars["fnilranger"] = mj.Recipe{T: "rangerholder"}
	g.p.Vars["fsendonly"] = mj.Recipe{T: "chan<- int"}
	g.p.Vars["fsendonlyptr"] = mj.Recipe{T: "*chan<- int"}
	g.p.Vars["fnilfaces"] = mj.Recipe{T: "nil-ifaces"}
	g.p.Vars["fnilstrmap"] = mj.Recipe{T: "nilmap"}
	g.p.Vars["fintmap"] = mj.Recipe{T: "map[int]string", Is: []int64{1}, Ss: []string{"one"}}
	g.p.Vars["fneg"] = mj.RInt(-3)
	g.p.Vars["fsendonlyholder"] = mj.Recipe{T: "sendonly-holder"}
	g.p.Vars["fpuser"] = mj.Recipe{T: "*user", S: "pu"}
	g.p.Vars["fikmap"] = mj.Recipe{T: "map[any]int"}
	g.p.Vars["fnilinner"] = mj.Recipe{T: "nil*valrecv"}
	d := mj.Recipe{T: "user", S: "ctxuser"}
	g.p.Data = &d
	a := c12Actions[g.n(0, len(c12Actions)-1, "action")]
	if g.n(0, 7, "nilContext") == 0 {
		// Execute without a context, right after a successful execution of another template that had one
		// with these members: a field or method of '.' is an error, whatever ran before
		g.p.Data = nil
		a.class, a.src, a.pos, a.partial = "nil-context", []string{".Name", ".Greeting()", ".Friend.Name", "len(.Tags)"}[g.n(0, 3, "nilCtxAction")], true, ""
		if a.src == "len(.Tags)" {
			a.pos = false
		}
		pd := mj.Recipe{T: "user", S: "prioruser"}
		g.p.PriorEntry, g.p.PriorData = "/prior.jet", &pd
		g.labels["nil-context-after-execution-with-context"] = true
	}
	fail := &mj.Node{K: "fail", Src: a.src, Class: a.class, Partial: a.partial, TrimL: g.n(0, 3, "ftl") == 0, TrimR: g.n(0, 3, "ftr") == 0}
	depth := g.n(0, 3, "depth")
	core := g.nest(depth, []*mj.Node{mj.Text(g.id("before-on-same-line ")), fail, mj.Text(" after-on-same-line")})
	content := append(append(g.filler(), core...), g.filler()...)
	content = append(content, mj.Text("\nTAIL must not be rendered\n"))
	lib := &mj.File{Path: pLib, Body: []*mj.Node{
		mj.Text("import text\n"),
		{K: "block", Name: "wrap", Body: []*mj.Node{mj.Text("{w:"), {K: "ycontent"}, mj.Text(":w}")}},
		{K: "block", Name: "pblock", Params: []mj.Param{{Name: "p", E: mj.Str("pd")}}, Body: []*mj.Node{mj.Text("pblock")}},
		{K: "block", Name: "nblock", Body: []*mj.Node{mj.Text("nblock")}},
	}}
	lib.Body = append(lib.Body, g.blocks...)
	main := &mj.File{Path: pMain, Imports: []string{pLib}}
	g.p.Files = []*mj.File{main, lib}
	if g.p.PriorEntry != "" {
		g.p.Files = append(g.p.Files, &mj.File{Path: "/prior.jet", Body: []*mj.Node{mj.Text("prior "), mj.Print(mj.Field("Name"))}})
	}
	role := []string{"main", "included", "imported-block", "layout-root", "leaf-block"}[g.n(0, 4, "role")]
	switch role {
	case "main":
		main.Body = content
	case "included":
		part := &mj.File{Path: pPart, Body: content}
		g.p.Files = append(g.p.Files, part)
		main.Body = append(append(g.filler(), &mj.Node{K: "include", E: mj.Str(pPart[1:])}), mj.Text("after include"))
	case "imported-block":
		lib.Body = append(lib.Body, mj.Text("\n\n"), &mj.Node{K: "block", Name: "libblk", Body: content})
		main.Body = append(append(g.filler(), &mj.Node{K: "yield", Name: "libblk"}), mj.Text("after yield"))
	case "layout-root":
		base := &mj.File{Path: pBase, Imports: []string{pLib}, Body: content}
		g.p.Files = append(g.p.Files, base)
		main.Extends = pBase
		main.Body = []*mj.Node{mj.Text("ignored\n")}
	case "leaf-block":
		base := &mj.File{Path: pBase, Body: append(append(g.filler(), &mj.Node{K: "block", Name: "slot", Body: []*mj.Node{mj.Text("default")}}), mj.Text("after slot"))}
		g.p.Files = append(g.p.Files, base)
		main.Extends = pBase
		main.Body = append(g.filler(), &mj.Node{K: "block", Name: "slot", Body: content})
	}
	c := c12Case{Prog: g.p, Role: role, Action: a.src, Class: a.class, PosChk: a.pos}
	src := mj.NewPrinter().Sources(g.p)
	var paths []string
	for p := range src {
		paths = append(paths, p)
	}
	sort.Strings(paths)
	for _, p := range paths {
		c.Src = append(c.Src, p+": "+src[p])
	}
	if fail.Line >= 2 {
		g.labels["line>=2"] = true
	}
	if depth >= 2 {
		g.labels["depth>=2"] = true
	}
	for k := range g.labels {
		c.Labels = append(c.Labels, k)
	}
	sort.Strings(c.Labels)
	return c
}

func judgeC12(c c12Case) (v core.Verdict) {
	want, discard := mj.ModelRun(c.Prog, nil)
	if discard != "" {
		v.Discard = "model:" + discard
		return
	}
	if want.Err == nil {
		v.Discard = "model-did-not-reach-the-failing-action"
		return
	}
	got, _, _ := mj.EngineRun(c.Prog, failFuncs())
	lab := map[string]bool{}
	for _, l := range c.Labels {
		lab[l] = true
	}
	v.Label(c.Labels...)
	v.Label("class:"+c.Class, "role:"+c.Role)
	v.NonTrivial = (lab["line>=2"] && c.Role != "main") || lab["depth>=2"]
	desc := fmt.Sprintf("failing action {{ %s }} (%s) at %s:%d in template set %q", c.Action, c.Class, want.Err.File, want.Err.Line, c.Src)
	if got.Panicked {
		v.Failf("%s: Execute panicked instead of returning an error: %s", desc, got.PanicVal)
		return
	}
	if got.Err == nil {
		v.Failf("%s: Execute returned no error; output %q", desc, got.Out)
		return
	}
	if c.PosChk {
		file, line, ok := jetrun.ErrPos(got.Err)
		if !ok || file != want.Err.File || line != want.Err.Line {
			v.Failf("%s: error does not name that position: %v", desc, got.Err)
			return
		}
	}
	// streaming: exactly the output up to the failing action (for "writer not last" the failing
	// action itself may already have emitted the writer's bytes)
	partial := ""
	for _, a := range c12Actions {
		if a.src == c.Action {
			partial = a.partial
		}
	}
	if got.Out != want.Out && !(partial != "" && got.Out == want.Out+partial) {
		v.Failf("%s: the writer must hold exactly what was rendered before the failing action:\n got  %q\n want %q", desc, got.Out, want.Out)
		return
	}
	if strings.Contains(got.Out, "TAIL must not be rendered") {
		v.Failf("%s: output continued after the failure", desc)
	}
	return
}

func TestC12(t *testing.T) {
	core.Run(t, "C12",
		"template sets (executed file, included file in a sub-directory, imported block library, extended layout, overriding block in the leaf) (a sixth of the cases with percent signs in every template name) with exactly one failing action out of 90 (every class the statement lists, several spellings each, plus errors reported by called functions, one of them wrapping a Go runtime error as its cause) at a generated position: preceded by multi-line text, multi-line comments, trimming actions, other actions on the same line and multi-line ranges, at nesting depth 0-3 inside if/else/range/block/yield-content (also content rendered from inside two declaring lists of the block body); also: send-only channels behind a pointer, in an interface slot and as a defined type; round 10: methods of nil values in slots of interface types that have methods; round 11: a function that takes no arguments called with some; assignment to entries of a nil map and of a map[int]string; repeat with a negative count; oracle = no panic, non-nil error, (\"file\":line) equal to the printer's ground truth for self-detected failures, writer content equal to the reference interpreter's output up to the failing action; non-trivial = line>=2 in a file other than the executed one, or nesting depth>=2",
		genC12, judgeC12)
}

func TestC12Replay(t *testing.T) { core.Replay(t, "C12", judgeC12) }
