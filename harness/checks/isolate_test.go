package checks

// Worker side of the isolation protocol (see package isolate) and the shared
// pool used by C02 and C20.

import (
	"encoding/json"
	"fmt"
	"io"
	"runtime"
	"strings"
	"time"

	"jetverif/isolate"
	"jetverif/jetrun"

	"github.com/CloudyKit/jet/v6"
)

var isoPool = &isolate.Pool{}

type isoReq struct {
	Op     string            `json:"op"` // "parse" | "get" | "walk"
	Name   string            `json:"name"`
	Src    string            `json:"src"`
	Delims jetrun.Delims     `json:"delims"`
	Files  map[string]string `json:"files,omitempty"`
	// OpenFails: the loader says this path exists, but opening it fails (unreadable file, a delete racing with the lookup)
	OpenFails string `json:"open_fails,omitempty"`
	// OpenFailsKind: "" = an ordinary error; "runtime" = the error value is a Go runtime error (the loader recovered
	// from a fault of its own and hands back what it recovered): an error like any other for the Set
	OpenFailsKind string `json:"open_fails_kind,omitempty"`
}

type openFailLoader struct {
	jet.Loader
	path string
	kind string
}

func (l *openFailLoader) Open(p string) (rc io.ReadCloser, err error) {
	if p == l.path && l.kind == "runtime" {
		defer func() { err, _ = recover().(error) }()
		var index []int
		_ = index[len(p)]
	}
	if p == l.path {
		return nil, fmt.Errorf("open %s: permission denied (injected)", p)
	}
	return l.Loader.Open(p)
}

func isoSet(files map[string]string, req isoReq) *jet.Set {
	if req.OpenFails == "" {
		s, _ := jetrun.NewSet(files, req.Delims.Options()...)
		return s
	}
	m := jet.NewInMemLoader()
	for k, v := range files {
		m.Set(k, v)
	}
	return jet.NewSet(&openFailLoader{Loader: m, path: req.OpenFails, kind: req.OpenFailsKind}, req.Delims.Options()...)
}

type isoResp struct {
	HasErr      bool      `json:"has_err"`
	ErrText     string    `json:"err,omitempty"`
	TemplateNil bool      `json:"tnil"`
	RootNil     bool      `json:"rootnil"`
	StringPanic string    `json:"string_panic,omitempty"`
	CallerPanic string    `json:"caller_panic,omitempty"`
	Second      string    `json:"second,omitempty"` // get: the second lookup on the same Set disagrees with the first
	LexerLeak   bool      `json:"lexer_leak"`
	LeakStacks  string    `json:"leak_stacks,omitempty"`
	Walk        *walkResp `json:"walk,omitempty"`
}

func workerMain() bool {
	if !isolate.IsWorker() {
		return false
	}
	isolate.Serve(func(b []byte) []byte {
		var req isoReq
		var resp isoResp
		if err := json.Unmarshal(b, &req); err != nil {
			resp.CallerPanic = "worker: bad request: " + err.Error()
		} else {
			resp = handleIso(req)
		}
		out, _ := json.Marshal(resp)
		return out
	})
	return true
}

func lexerGoroutines() (int, string) {
	buf := make([]byte, 1<<20)
	n := runtime.Stack(buf, true)
	s := string(buf[:n])
	cnt := 0
	var keep []string
	for _, g := range strings.Split(s, "\n\n") {
		if strings.Contains(g, "jet/v6.lex") || strings.Contains(g, "jet/v6.(*lexer)") {
			cnt++
			if len(keep) < 2 {
				keep = append(keep, g)
			}
		}
	}
	return cnt, strings.Join(keep, "\n\n")
}

func handleIso(req isoReq) (resp isoResp) {
	base := runtime.NumGoroutine()
	var t *jet.Template
	func() {
		defer func() {
			if r := recover(); r != nil {
				resp.CallerPanic = fmt.Sprint(r)
				t = nil
			}
		}()
		files := map[string]string{}
		for k, v := range req.Files {
			files[k] = v
		}
		var err error
		switch req.Op {
		case "get":
			files[req.Name] = req.Src
			s := isoSet(files, req)
			t, err = s.GetTemplate(req.Name)
			// asked again on the same Set the answer must be the same kind of answer: a failure is never
			// remembered as a success (a half-built template served from the cache)
			t2, err2 := s.GetTemplate(req.Name)
			if (err == nil) != (err2 == nil) {
				resp.Second = fmt.Sprintf("first GetTemplate err=%v, second err=%v", err, err2)
			} else if err2 == nil && (t2 == nil || t2.Root == nil) {
				resp.Second = "second GetTemplate returned an unusable template"
			}
		case "warm-parse":
			// every file has been asked for (and is remembered) before the source is handed to Set.Parse
			s := isoSet(files, req)
			for k := range files {
				s.GetTemplate(k)
			}
			t, err = s.Parse(req.Name, req.Src)
		default:
			s := isoSet(files, req)
			t, err = s.Parse(req.Name, req.Src)
		}
		if err != nil {
			resp.HasErr = true
			resp.ErrText = err.Error()
		}
		resp.TemplateNil = t == nil
		if t != nil {
			resp.RootNil = t.Root == nil
		}
	}()
	if t != nil && !resp.HasErr && t.Root != nil {
		func() {
			defer func() {
				if r := recover(); r != nil {
					resp.StringPanic = fmt.Sprint(r)
				}
			}()
			_ = t.String()
		}()
		if req.Op == "walk" {
			resp.Walk = doWalk(t)
		}
	}
	// no goroutine may outlive the call
	deadline := time.Now().Add(100 * time.Millisecond)
	for runtime.NumGoroutine() > base && time.Now().Before(deadline) {
		time.Sleep(200 * time.Microsecond)
	}
	if runtime.NumGoroutine() > base {
		if n, st := lexerGoroutines(); n > 0 {
			resp.LexerLeak = true
			resp.LeakStacks = st
		}
	}
	return resp
}

// isoCall sends one request; a hang is retried once on a fresh worker.
func isoCall(req isoReq) (resp isoResp, crash string, hang bool, infra error) {
	b, _ := json.Marshal(req)
	for attempt := 0; attempt < 2; attempt++ {
		res, err := isoPool.Call(b, 20*time.Second)
		if err != nil {
			return resp, "", false, err
		}
		if res.Died {
			return resp, res.Stderr, false, nil
		}
		if res.Hung {
			hang = true
			continue
		}
		if err := json.Unmarshal(res.Resp, &resp); err != nil {
			return resp, "", false, fmt.Errorf("bad worker response: %v", err)
		}
		if resp.LexerLeak {
			isoPool.Close() // start the next case from a clean process
		}
		return resp, "", false, nil
	}
	return resp, "", hang, nil
}
