package checks

// C07 — variables are lexically scoped and stable; '.' is restored after
// every body. Programs mix :=, =, multi-assignment and discard at every
// nesting depth of if/range/block/yield-content/include/try with shadowing
// between locals, Execute variables, globals and built-ins, and capture loop
// variables of every ranger kind. Oracle: MiniJet reference interpreter plus
// the caller's VarMap after Execute.

import (
	"fmt"
	"reflect"
	"sort"
	"testing"

	"jetverif/core"
	"jetverif/mj"

	"pgregory.net/rapid"
)

type c07Case struct {
	Prog   *mj.Program `json:"prog"`
	Src    []string    `json:"src"`
	Labels []string    `json:"labels,omitempty"`
}

type c07Gen struct {
	t      *rapid.T
	p      *mj.Program
	uniq   int
	nfile  int
	labels map[string]bool
	lib    *mj.File
}

func (g *c07Gen) n(lo, hi int, l string) int { return rapid.IntRange(lo, hi).Draw(g.t, l) }
func (g *c07Gen) id(p string) string         { g.uniq++; return fmt.Sprintf("%s%d", p, g.uniq) }

var c07Locals = []string{"a", "b", "c"}

// names that exist outside the template: Execute variable, global, both, built-in
var c07Outer = []string{"ev", "gv", "both", "lower", "upper"}

func (g *c07Gen) value(vis []string) *mj.Expr {
	switch g.n(0, 5, "valkind") {
	case 0:
		return mj.Num(float64(g.n(0, 9, "num")))
	case 1:
		if len(vis) > 0 {
			return mj.Var(vis[g.n(0, len(vis)-1, "valvar")])
		}
		fallthrough
	case 2:
		return mj.Str(g.id("s"))
	case 3:
		return mj.Var([]string{"ev", "gv", "both"}[g.n(0, 2, "outerval")])
	default:
		return mj.Str(g.id("w"))
	}
}

func has(xs []string, x string) bool {
	for _, y := range xs {
		if y == x {
			return true
		}
	}
	return false
}

func with(vis []string, names ...string) []string {
	out := append([]string{}, vis...)
	for _, n := range names {
		if n != "_" && !has(out, n) {
			out = append(out, n)
		}
	}
	return out
}

// probes read back what is visible (and what should not be).
func (g *c07Gen) probes(vis []string) []*mj.Node {
	var out []*mj.Node
	for k := g.n(1, 3, "nprobes"); k > 0; k-- {
		switch g.n(0, 5, "probe") {
		case 0, 1:
			if len(vis) > 0 {
				v := vis[g.n(0, len(vis)-1, "probevar")]
				out = append(out, mj.Text("("+v+"="), mj.Print(mj.Var(v)), mj.Text(")"))
				continue
			}
			fallthrough
		case 2:
			all := append(append([]string{}, c07Locals...), c07Outer...)
			v := all[g.n(0, len(all)-1, "issetvar")]
			out = append(out, mj.Text("(isset "+v+":"), mj.Print(mj.Call("isset", mj.Var(v))), mj.Text(")"))
		case 3:
			out = append(out, mj.Text("(.="), mj.Print(mj.Dot()), mj.Text(")"))
		case 4:
			v := []string{"ev", "gv", "both", "upper"}[g.n(0, 3, "outerprobe")] // "upper": a global that shadows the built-in
			out = append(out, mj.Text("("+v+"="), mj.Print(mj.Var(v)), mj.Text(")"))
		default:
			out = append(out, mj.Text(g.id("t")))
		}
	}
	return out
}

func (g *c07Gen) assignStmt(vis []string) (*mj.Node, []string) {
	pool := append(append([]string{}, c07Locals...), "ev", "both", "lower")
	name := pool[g.n(0, len(pool)-1, "target")]
	switch k := g.n(0, 9, "assignkind"); {
	case k <= 3: // declaration
		g.labels["let"] = true
		if has(vis, name) {
			g.labels["let-shadows-or-rebinds"] = true
		}
		return mj.Let(name, g.value(vis)), with(vis, name)
	case k <= 6: // assignment to something visible (Execute variables are visible from the start)
		cands := append([]string{}, vis...)
		for _, o := range []string{"ev", "both"} {
			if !has(cands, o) {
				cands = append(cands, o)
			}
		}
		tgt := cands[g.n(0, len(cands)-1, "settarget")]
		if tgt == "lower" || tgt == "gv" {
			tgt = "ev"
		}
		g.labels["set"] = true
		return mj.Set(tgt, g.value(vis)), vis
	case k == 7: // multi declaration
		x, y := c07Locals[g.n(0, 2, "m1")], c07Locals[g.n(0, 2, "m2")]
		if x == y {
			y = "_"
		}
		g.labels["multi-let"] = true
		return &mj.Node{K: "let", Decl: true, Names: []string{x, y}, Es: []*mj.Expr{mj.Str(g.id("m")), mj.Num(float64(g.n(0, 9, "mnum")))}}, with(vis, x, y)
	case k == 8 && len(vis) >= 1 && g.n(0, 1, "lookupAssign") == 0:
		// two-value map look-up in the assigning form: rebinds the innermost visible variables, declares nothing
		var locals []string
		for _, n := range vis {
			if n == "a" || n == "b" || n == "c" {
				locals = append(locals, n)
			}
		}
		if len(locals) == 0 {
			g.labels["discard"] = true
			return &mj.Node{K: "set", Names: []string{"_"}, Es: []*mj.Expr{g.value(vis)}}, vis
		}
		x, y := "_", locals[g.n(0, len(locals)-1, "lookupOk")]
		if len(locals) >= 2 && g.n(0, 1, "lookupBoth") == 0 {
			x = locals[g.n(0, len(locals)-1, "lookupV")]
			if x == y {
				x = "_"
			}
		}
		g.p.Vars["LM"] = mj.Recipe{T: "map[string]int", Keys: []string{"here"}, Is: []int64{42}}
		key := []string{"here", "gone"}[g.n(0, 1, "lookupKey")]
		g.labels["lookup-assign"] = true
		return &mj.Node{K: "set", Lookup: true, Names: []string{x, y}, Es: []*mj.Expr{mj.Index(mj.Var("LM"), mj.Str(key))}}, vis
	case k == 8: // discard
		g.labels["discard"] = true
		return &mj.Node{K: "set", Names: []string{"_"}, Es: []*mj.Expr{g.value(vis)}}, vis
	default: // assignment to a name that may not be visible: must fail unless it is
		g.labels["set-maybe-undeclared"] = true
		return mj.Set(c07Locals[g.n(0, 2, "undecl")], g.value(vis)), vis
	}
}

var c07Rangers = []struct {
	name    string
	indexed bool
	recipe  mj.Recipe
}{
	{"XS", true, mj.RInts(10, 20, 30)},
	{"SS", true, mj.RStrs("p", "q", "r")},
	{"AN", true, mj.RAny(mj.RStr("x"), mj.RInt(5), mj.RStr("z"))},
	{"AR", true, mj.Recipe{T: "array", Is: []int64{7, 8, 9}}},
	{"M1", true, mj.Recipe{T: "map[string]int", Keys: []string{"only"}, Is: []int64{42}}},
	{"CH", false, mj.Recipe{T: "chan int", Is: []int64{3, 4, 5}}},
	{"RG", true, mj.Recipe{T: "ranger", Ss: []string{"r0", "r1", "r2"}}},
	{"RP", false, mj.Recipe{T: "ranger-plain", Ss: []string{"s0", "s1", "s2"}}},
	{"INTS", true, mj.Recipe{}},
}

func (g *c07Gen) rangerExpr(i int) *mj.Expr {
	r := c07Rangers[i]
	if r.name == "INTS" {
		return mj.Call("ints", mj.Num(0), mj.Num(3))
	}
	g.p.Vars[r.name] = r.recipe
	return mj.Var(r.name)
}

// capture: assign a loop variable to an outer variable in one chosen iteration, print it after the loop.
func (g *c07Gen) capture(vis []string) []*mj.Node {
	ri := g.n(0, len(c07Rangers)-1, "capRanger")
	r := c07Rangers[ri]
	cap, cnt := g.id("cap"), g.id("cnt")
	pick := g.n(0, 2, "capIter")
	if r.name == "M1" {
		pick = 0
	}
	g.labels["capture:"+r.name] = true
	out := []*mj.Node{mj.Let(cap, mj.Str("none")), mj.Let(cnt, mj.Num(0))}
	rn := &mj.Node{K: "range", E: g.rangerExpr(ri), Decl: true}
	var loopVal *mj.Expr
	form := g.n(0, 2, "capForm")
	if !r.indexed && form == 2 {
		form = 1
	}
	iv, vv := g.id("i"), g.id("v")
	captureIndex := false
	switch form {
	case 0:
		loopVal = mj.Dot()
	case 1:
		rn.Names = []string{iv}
		if r.indexed {
			if g.n(0, 1, "capIdx") == 0 {
				loopVal, captureIndex = mj.Var(iv), true
			} else {
				loopVal = mj.Dot()
			}
		} else {
			loopVal = mj.Var(iv)
		}
	default:
		rn.Names = []string{iv, vv}
		if g.n(0, 2, "capIdx2") == 0 {
			loopVal, captureIndex = mj.Var(iv), true
		} else {
			loopVal = mj.Var(vv)
		}
	}
	_ = captureIndex
	rn.Body = []*mj.Node{
		mj.If(mj.Bin("==", mj.Var(cnt), mj.Num(float64(pick))), []*mj.Node{mj.Set(cap, loopVal)}, nil),
		mj.Set(cnt, mj.Bin("+", mj.Var(cnt), mj.Num(1))),
	}
	out = append(out, rn, mj.Text("(captured="), mj.Print(mj.Var(cap)), mj.Text(")"))
	return out
}

// captureSum: the sum of two Go integers computed in one iteration is kept in an outer variable; later iterations
// compute other sums with the same expression, the variable keeps the value it was given.
func (g *c07Gen) captureSum() []*mj.Node {
	first, cnt, s, i := g.id("first"), g.id("cnt"), g.id("sum"), g.id("i")
	g.p.Vars["one"] = mj.RInt(1)
	pick := g.n(0, 1, "sumIter")
	op := []string{"+", "-"}[g.n(0, 1, "sumOp")]
	g.labels["capture-sum-of-two-go-integers"] = true
	rn := &mj.Node{K: "range", E: mj.Call("ints", mj.Num(2), mj.Num(5)), Decl: true, Names: []string{i}, Body: []*mj.Node{
		mj.Let(s, mj.Bin(op, mj.Var(i), mj.Var("one"))),
		mj.If(mj.Bin("==", mj.Var(cnt), mj.Num(float64(pick))), []*mj.Node{mj.Set(first, mj.Var(s))}, nil),
		mj.Set(cnt, mj.Bin("+", mj.Var(cnt), mj.Num(1))),
	}}
	return []*mj.Node{mj.Let(first, mj.Num(0)), mj.Let(cnt, mj.Num(0)), rn, mj.Text("(kept sum="), mj.Print(mj.Var(first)), mj.Text(")")}
}

// captureMapElement: the value of one iteration over a map with struct (or array) elements is kept in an
// outer variable together with its key; whatever the iteration order, the two still belong together when the
// loop has moved on and after it has ended (a variable keeps the value it was given).
func (g *c07Gen) captureMapElement() []*mj.Node {
	cap, capk, cnt := g.id("cap"), g.id("capk"), g.id("cnt")
	kv, vv := g.id("k"), g.id("v")
	name, member := "MU", mj.Chain(mj.Var(cap), "Name")
	g.p.Vars["MU"] = mj.Recipe{T: "map[string]user", Keys: []string{"ua", "ub", "uc", "ud"}}
	if g.n(0, 1, "capArrayElems") == 0 {
		name, member = "MP", mj.Index(mj.Var(cap), mj.Num(0))
		g.p.Vars["MP"] = mj.Recipe{T: "map[string]pair", Keys: []string{"pa", "pb", "pc"}}
	}
	g.labels["capture-map-element:"+name] = true
	pick := g.n(0, 1, "capMapIter")
	rn := &mj.Node{K: "range", E: mj.Var(name), Decl: true, Names: []string{kv, vv}}
	rn.Body = []*mj.Node{
		mj.If(mj.Bin("==", mj.Var(cnt), mj.Num(float64(pick))), []*mj.Node{mj.Set(cap, mj.Var(vv)), mj.Set(capk, mj.Var(kv))}, nil),
		mj.Set(cnt, mj.Bin("+", mj.Var(cnt), mj.Num(1))),
		mj.If(mj.Bin(">", mj.Var(cnt), mj.Num(float64(pick))), []*mj.Node{mj.Text("(during:"), mj.Print(mj.Bin("==", member, mj.Var(capk))), mj.Text(")")}, nil),
	}
	return []*mj.Node{mj.Let(cap, mj.Str("none")), mj.Let(capk, mj.Str("none")), mj.Let(cnt, mj.Num(0)), rn,
		mj.Text("(after:"), mj.Print(mj.Bin("==", member, mj.Var(capk))), mj.Text(")"),
		// a second loop over a map of the same type must not change what was captured either
		{K: "range", E: mj.Var(name), Body: []*mj.Node{mj.Text(".")}},
		mj.Text("(after another loop:"), mj.Print(mj.Bin("==", member, mj.Var(capk))), mj.Text(")")}
}

func (g *c07Gen) newFile(body []*mj.Node) string {
	g.nfile++
	path := fmt.Sprintf("/inc/f%d.jet", g.nfile)
	g.p.Files = append(g.p.Files, &mj.File{Path: path, Body: body})
	return path
}

func (g *c07Gen) stmts(depth int, vis []string) []*mj.Node {
	var out []*mj.Node
	count := g.n(1, 4, "nstmts")
	for i := 0; i < count; i++ {
		k := g.n(0, 15, "stmt")
		if depth >= 4 && k >= 6 {
			k = k % 6
		}
		switch {
		case k <= 3:
			n, nv := g.assignStmt(vis)
			out = append(out, n)
			vis = nv
		case k <= 5:
			out = append(out, g.probes(vis)...)
		case k == 6: // if, optionally with a declaring header
			n := &mj.Node{K: "if", E: mj.Bool(g.n(0, 1, "ifc") == 0)}
			inner := vis
			if g.n(0, 1, "ifhdr") == 0 {
				h := c07Locals[g.n(0, 2, "hdrname")]
				n.Hdr = &mj.Node{K: "let", Decl: true, Names: []string{h}, Es: []*mj.Expr{g.value(vis)}}
				n.E = mj.Bin("!=", mj.Var(h), mj.Str("never"))
				if g.n(0, 2, "hdrfalse") == 0 {
					n.E = mj.Bin("==", mj.Var(h), mj.Str("never"))
				}
				inner = with(vis, h)
				g.labels["if-let"] = true
			}
			n.Body = g.stmts(depth+1, inner)
			if g.n(0, 2, "ifWithoutElse") == 0 {
				g.labels["if-without-else"] = true // a false condition then runs nothing at all
			} else {
				n.HasElse = true
				n.Else = g.stmts(depth+1, inner)
			}
			out = append(out, n)
			out = append(out, g.probes(vis)...)
			g.labels["read-after-if"] = true
		case k == 7: // range with declared loop variables
			ri := g.n(0, len(c07Rangers)-1, "ranger")
			r := c07Rangers[ri]
			n := &mj.Node{K: "range", E: g.rangerExpr(ri), Decl: true}
			inner := vis
			switch f := g.n(0, 2, "rform"); {
			case f == 1:
				nm := c07Locals[g.n(0, 2, "r1")]
				n.Names = []string{nm}
				inner = with(vis, nm)
			case f == 2 && r.indexed:
				x, y := c07Locals[g.n(0, 2, "r2a")], c07Locals[g.n(0, 2, "r2b")]
				if x == y {
					x = "_"
				}
				n.Names = []string{x, y}
				inner = with(vis, x, y)
			}
			n.Body = append([]*mj.Node{mj.Text("[")}, append(g.stmts(depth+1, inner), mj.Text("]"))...)
			out = append(out, n)
			out = append(out, g.probes(vis)...)
			g.labels["read-after-range"] = true
		case k == 8: // range assigning to existing variables
			if len(vis) == 0 {
				continue
			}
			ri := g.n(0, 3, "setranger") // indexed, re-rangeable kinds
			nm := vis[g.n(0, len(vis)-1, "rsetname")]
			if nm == "lower" || nm == "gv" {
				continue
			}
			n := &mj.Node{K: "range", E: g.rangerExpr(ri), Names: []string{nm}}
			switch g.n(0, 3, "rsetdiscard") { // the other slot of the two-variable form is discarded
			case 0:
				n.Names = []string{"_", nm}
				g.labels["range-set-form-discard"] = true
			case 1:
				n.Names = []string{nm, "_"}
				g.labels["range-set-form-discard"] = true
			}
			n.Body = g.probes(vis)
			out = append(out, n)
			out = append(out, g.probes(vis)...)
			g.labels["range-set-form"] = true
		case k == 9: // block definition site, with or without parameters, with or without context
			name := g.id("blk")
			n := &mj.Node{K: "block", Name: name}
			inner := vis
			if g.n(0, 1, "bparams") == 0 {
				pn := g.id("p")
				n.Params = []mj.Param{{Name: pn, E: g.value(nil)}}
				inner = with(vis, pn)
				if len(vis) > 0 && g.n(0, 3, "paramNamedLikeVisible") == 0 {
					// a parameter that takes a visible variable of the same name as its default: the default is
					// evaluated once, outside the parameter's own scope
					same := vis[g.n(0, len(vis)-1, "paramSameName")]
					if same != "lower" {
						n.Params = []mj.Param{{Name: same, E: mj.Bin("+", mj.Str("<"), mj.Var(same))}}
						pn = same
						inner = with(vis, pn)
						g.labels["block-parameter-named-like-a-visible-variable"] = true
					}
				} else if g.n(0, 2, "paramFromDot") == 0 {
					// the default is an expression of the call site: '.' in it is the caller's context, also
					// when the block is given a context of its own
					n.Params[0].E = mj.Dot()
					g.labels["block-parameter-reads-dot"] = true
				}
			}
			if g.n(0, 2, "bctx") == 0 {
				n.Ctx = mj.Str(g.id("bctx"))
				g.labels["block-context"] = true
			}
			n.Body = g.stmts(depth+1, inner)
			if len(n.Params) > 0 {
				n.Body = append([]*mj.Node{mj.Text("(" + n.Params[0].Name + "="), mj.Print(mj.Var(n.Params[0].Name)), mj.Text(")")}, n.Body...)
			}
			out = append(out, n)
			out = append(out, g.probes(vis)...)
			g.labels["read-after-block"] = true
		case k == 10: // yield with content: content runs in this scope; its assignments persist
			name := []string{"wrap", "wrapctx"}[g.n(0, 1, "whichwrap")]
			n := &mj.Node{K: "yield", Name: name, HasCont: true}
			if g.n(0, 2, "yctx") == 0 {
				n.Ctx = mj.Str(g.id("yctx"))
			}
			if len(vis) > 0 && g.n(0, 2, "yieldArgNamedLikeVisible") == 0 {
				// a value passed under a name the block does not declare, and that a variable at the yield site
				// has too: it lives in the block's own scope only
				nm := vis[g.n(0, len(vis)-1, "yieldArgName")]
				if nm != "lower" {
					n.Params = []mj.Param{{Name: nm, E: mj.Str(g.id("passed"))}}
					g.labels["yield-argument-named-like-a-visible-variable"] = true
				}
			}
			n.Content = g.stmts(depth+1, vis)
			out = append(out, n)
			out = append(out, g.probes(vis)...)
			g.labels["read-after-yield-content"] = true
		case k == 11: // include, with or without context: declarations do not leak, caller's variables are visible
			body := g.stmts(depth+1, vis)
			n := &mj.Node{K: "include", E: mj.Str(g.newFile(body))}
			if g.n(0, 1, "ictx") == 0 {
				n.Ctx = mj.Str(g.id("ictx"))
				g.labels["include-context"] = true
				if g.n(0, 2, "inameFromDot") == 0 {
					// the name and the context to pass are both fields of '.': the name is read from the '.'
					// the include statement stands in, not from the one it hands over
					row := mj.Call("map", mj.Str("P"), n.E, mj.Str("D"), n.Ctx, mj.Str("A"), mj.Call("map", mj.Str("P"), mj.Str("/no/such.jet")))
					n.E, n.Ctx = mj.Field("P"), []*mj.Expr{mj.Field("D"), mj.Field("A")}[g.n(0, 1, "ictxField")]
					n = &mj.Node{K: "range", E: mj.Call("slice", row), Body: []*mj.Node{n}}
					g.labels["include-name-and-context-from-dot"] = true
				}
			}
			out = append(out, n)
			out = append(out, g.probes(vis)...)
			g.labels["read-after-include"] = true
		case k == 12: // try: declarations stay inside
			out = append(out, &mj.Node{K: "try", Body: g.stmts(depth+1, vis)})
			out = append(out, g.probes(vis)...)
			g.labels["read-after-try"] = true
		case k == 13:
			if ck := g.n(0, 3, "captureKind"); ck == 0 {
				out = append(out, g.captureMapElement()...)
			} else if ck == 3 {
				out = append(out, g.captureSum()...)
			} else {
				out = append(out, g.capture(vis)...)
			}
		case k == 15 && g.n(0, 1, "globalAddedMeanwhile") == 0:
			// Go code the template calls adds a global to the Set: names resolve against the Set as it is when they
			// are looked up (after the variables, before the built-ins)
			gname := []string{"lateg", "lower", "a", "gv"}[g.n(0, 3, "lateGlobal")]
			val := g.id("LATE")
			out = append(out, mj.Print(mj.Call("addGlobalNow", mj.Str(gname), mj.Str(val))), mj.Text("("+gname+" now="), mj.Print(mj.Var(gname)), mj.Text(")"))
			g.labels["global-added-while-the-template-runs"] = true
		case k == 14 && g.n(0, 1, "swallowed") == 0:
			// isset() answers false when looking fails - here: a template executed for the answer fails half-way,
			// inside constructs that rebind '.', open scopes or hold yield content. Nothing of that stays behind.
			fail := []*mj.Node{mj.Let(c07Locals[g.n(0, 2, "swLeak")], mj.Str("LEAK")), mj.Text("!"), mj.Print(mj.Var("noSuchName"))}
			var body []*mj.Node
			switch g.n(0, 4, "swWrap") {
			case 0:
				body = []*mj.Node{{K: "range", E: mj.Call("slice", mj.Str("e0"), mj.Str("e1")), Body: fail}}
			case 1:
				body = []*mj.Node{{K: "range", E: mj.Call("slice", mj.Str("e0")), Decl: true, Names: []string{c07Locals[g.n(0, 2, "swK")], "swv"}, Body: fail}}
			case 2:
				h := c07Locals[g.n(0, 2, "swH")]
				body = []*mj.Node{{K: "if", Hdr: &mj.Node{K: "let", Decl: true, Names: []string{h}, Es: []*mj.Expr{mj.Str("HDR")}}, E: mj.Var(h), Body: fail}}
			case 3:
				body = []*mj.Node{{K: "block", Name: g.id("swb"), Ctx: mj.Str("BLOCK-CTX"), Body: fail}}
			default:
				body = []*mj.Node{{K: "yield", Name: "wrapctx", HasCont: true, Content: fail}}
			}
			path := g.newFile(body)
			if body[0].K == "yield" {
				g.p.Files[len(g.p.Files)-1].Imports = []string{"/lib.jet"}
			}
			asker := []string{"isset", "given"}[g.n(0, 1, "swAsker")] // the built-in, or a Go function asking Arguments.IsSet
			out = append(out, mj.Text("(sw:"), mj.Print(mj.Call(asker, mj.Chain(mj.Call("exec", mj.Str(path)), "x"))), mj.Text(")"))
			out = append(out, g.probes(vis)...)
			g.labels["read-after-failure-swallowed-by-isset:"+body[0].K] = true
		default:
			out = append(out, g.probes(vis)...)
		}
	}
	return out
}

func genC07(t *rapid.T) c07Case {
	g := &c07Gen{t: t, labels: map[string]bool{}}
	g.p = &mj.Program{Entry: "/main.jet", Vars: map[string]mj.Recipe{"ev": mj.RStr("EV0"), "both": mj.RStr("BOTH-var")},
		Globals: map[string]mj.Recipe{"gv": mj.RStr("GV0"), "both": mj.RStr("BOTH-global"), "upper": mj.RStr("GLOBAL-named-like-a-builtin")}}
	d := mj.RStr("CTX")
	g.p.Data = &d
	g.lib = &mj.File{Path: "/lib.jet", Body: []*mj.Node{
		{K: "block", Name: "wrap", Body: []*mj.Node{mj.Text("{w:"), {K: "ycontent"}, mj.Text(":w}")}},
		// the content gets its own context; '.' must be the block's again right after it
		{K: "block", Name: "wrapctx", Body: []*mj.Node{mj.Text("{wc:"), {K: "ycontent", Ctx: mj.Str("content-ctx")}, mj.Text("(.="), mj.Print(mj.Dot()), mj.Text("):wc}")}},
	}}
	main := &mj.File{Path: "/main.jet", Imports: []string{"/lib.jet"}}
	g.p.Files = []*mj.File{main, g.lib}
	main.Body = append([]*mj.Node{mj.Text("<")}, g.stmts(0, nil)...)
	main.Body = append(main.Body, g.probes(nil)...)
	main.Body = append(main.Body, mj.Text(">"))
	c := c07Case{Prog: g.p}
	src := mj.NewPrinter().Sources(g.p)
	var paths []string
	for p := range src {
		paths = append(paths, p)
	}
	sort.Strings(paths)
	for _, p := range paths {
		c.Src = append(c.Src, p+": "+src[p])
	}
	for k := range g.labels {
		c.Labels = append(c.Labels, k)
	}
	sort.Strings(c.Labels)
	return c
}

func judgeC07(c c07Case) (v core.Verdict) {
	want, discard := mj.ModelRun(c.Prog, nil)
	if discard != "" {
		v.Discard = "model:" + discard
		return
	}
	got, vars, src := mj.EngineRun(c.Prog, nil)
	v.Label(c.Labels...)
	nt := 0
	for _, l := range c.Labels {
		switch l {
		case "read-after-if", "read-after-range", "read-after-block", "read-after-yield-content", "read-after-include", "read-after-try", "let-shadows-or-rebinds":
			nt++
		}
		if len(l) > 8 && l[:8] == "capture:" {
			nt++
		}
	}
	v.NonTrivial = nt > 0
	desc := fmt.Sprintf("templates %q", src)
	if got.Panicked {
		v.Failf("%s: Execute panicked: %s", desc, got.PanicVal)
		return
	}
	if want.Err != nil {
		v.Label("expect-error:" + want.Err.Class)
		if got.Err == nil {
			v.Failf("%s: must fail at %s:%d (%s) but rendered %q", desc, want.Err.File, want.Err.Line, want.Err.Msg, got.Out)
		}
		return
	}
	if got.Err != nil {
		v.Failf("%s: failed with %v; the model renders %q", desc, got.Err, want.Out)
		return
	}
	if got.Out != want.Out {
		v.Failf("%s:\n got  %q\n want %q", desc, got.Out, want.Out)
		return
	}
	// the caller's VarMap: same keys; values equal to what the model says they are now
	for k := range vars {
		if _, ok := want.Vars[k]; !ok {
			v.Failf("%s: Execute added %q to the caller's VarMap", desc, k)
			return
		}
	}
	for k, mv := range want.Vars {
		ev, ok := vars[k]
		if !ok {
			v.Failf("%s: Execute removed %q from the caller's VarMap", desc, k)
			return
		}
		if _, isFn := mv.(func()); isFn {
			continue
		}
		if !ev.IsValid() {
			if mv != nil {
				v.Failf("%s: VarMap[%q] became invalid, model has %v", desc, k, mv)
			}
			continue
		}
		switch mv.(type) {
		case string, float64, int, bool:
			if fmt.Sprint(ev.Interface()) != fmt.Sprint(mv) {
				v.Failf("%s: VarMap[%q] = %v after Execute, model says %v", desc, k, ev.Interface(), mv)
				return
			}
		default:
			_ = reflect.TypeOf(mv)
		}
	}
	return
}

func TestC07(t *testing.T) {
	core.Run(t, "C07",
		"programs over local names a,b,c plus names that exist as Execute variable, global, both and built-in: :=, =, multi-assignment, discard, prints, isset and '.' probes nested (depth<=5) in if (with declaring header)/range (all forms, := and =)/block (with/without parameters and context)/yield-with-content/include (with/without context, name and context read from the dot of a range)/try, globals added to the Set by Go code the running template calls, isset() of a template executed for the answer that fails inside range / if-let / block-with-context / yield content, and the capture idiom over slices, interface slices, arrays, maps, channels, ints(), indexed and index-less custom Rangers; round 10: isset() also asked through a Go function that calls Arguments.IsSet; round 11: a sum of two Go integers kept in an outer variable while later iterations compute other sums; oracle = MiniJet reference interpreter (expected output or expected failure) and the caller's VarMap after Execute; non-trivial = a probe after a construct that declared or shadowed names, or a capture from a loop variable",
		genC07, judgeC07)
}

func TestC07Replay(t *testing.T) { core.Replay(t, "C07", judgeC07) }
