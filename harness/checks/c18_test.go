package checks

// C18 — the Go-side Runtime and Arguments API mirrors template semantics:
// Let / Set / SetOrLet / LetGlobal / Resolve / Context / YieldBlock act on
// the scopes of the call site like the corresponding syntax; Arguments.Get,
// NumOfArguments, IsSet and ParseInto present piped and slot-placed values
// where a reflected Go function would receive them.

import (
	"fmt"
	"reflect"
	"sort"
	"strings"
	"testing"

	"jetverif/core"
	"jetverif/jetrun"
	"jetverif/mj"

	"github.com/CloudyKit/jet/v6"
	"pgregory.net/rapid"
)

type c18Case struct {
	Kind   string      `json:"kind"` // scopes | arguments
	Prog   *mj.Program `json:"prog,omitempty"`
	Src    []string    `json:"src,omitempty"`
	Labels []string    `json:"labels,omitempty"`
	Tpl    string      `json:"tpl,omitempty"`  // arguments: API form
	Twin   string      `json:"twin,omitempty"` // arguments: reflected form
}

// ---- engine side: functions using the Runtime API ----

func c18Funcs() map[string]jet.Func {
	str := func(v reflect.Value) string { return v.String() }
	none := reflect.Value{}
	return map[string]jet.Func{
		"apiLet": func(a jet.Arguments) reflect.Value {
			a.Runtime().Let(str(a.Get(0)), a.Get(1).Interface())
			return none
		},
		"apiSet": func(a jet.Arguments) reflect.Value {
			if err := a.Runtime().Set(str(a.Get(0)), a.Get(1).Interface()); err != nil {
				a.Panicf("apiSet: %v", err)
			}
			return none
		},
		"apiSetOrLet": func(a jet.Arguments) reflect.Value {
			a.Runtime().SetOrLet(str(a.Get(0)), a.Get(1).Interface())
			return none
		},
		"apiLetGlobal": func(a jet.Arguments) reflect.Value {
			a.Runtime().LetGlobal(str(a.Get(0)), a.Get(1).Interface())
			return none
		},
		"apiResolve": func(a jet.Arguments) reflect.Value { return a.Runtime().Resolve(str(a.Get(0))) },
		"apiLetList": func(a jet.Arguments) reflect.Value {
			a.Runtime().Let(str(a.Get(0)), a.Get(1).Interface())
			return reflect.ValueOf([]string{"r1", "r2"})
		},
		"apiCtx": func(a jet.Arguments) reflect.Value { return a.Runtime().Context() },
		"apiYield": func(a jet.Arguments) reflect.Value {
			var ctx interface{}
			if a.NumOfArguments() > 1 {
				ctx = a.Get(1).Interface()
			}
			a.Runtime().YieldBlock(str(a.Get(0)), ctx)
			return none
		},
	}
}

// ---- model side ----

func c18ModelSetup(in *mj.Interp) {
	in.Funcs["apiLet"] = func(in *mj.Interp, a []interface{}) interface{} { in.APILet(a[0].(string), a[1]); return nil }
	in.Funcs["apiSet"] = func(in *mj.Interp, a []interface{}) interface{} {
		if !in.APISet(a[0].(string), a[1]) {
			in.Fail("assign-undeclared", "apiSet")
		}
		return nil
	}
	in.Funcs["apiSetOrLet"] = func(in *mj.Interp, a []interface{}) interface{} {
		// Set if there is such a variable, else Let (a name that only resolves to a global or a built-in is no variable)
		if !in.APISet(a[0].(string), a[1]) {
			in.APILet(a[0].(string), a[1])
		}
		return nil
	}
	in.Funcs["apiLetGlobal"] = func(in *mj.Interp, a []interface{}) interface{} { in.APILetGlobal(a[0].(string), a[1]); return nil }
	in.Funcs["apiResolve"] = func(in *mj.Interp, a []interface{}) interface{} {
		if a[0].(string) == "." {
			return in.Ctx() // '.' is an identifier like any other to Resolve
		}
		v, _ := in.APIResolve(a[0].(string))
		return v
	}
	in.Funcs["apiCtx"] = func(in *mj.Interp, a []interface{}) interface{} { return in.Ctx() }
	in.Funcs["apiLetList"] = func(in *mj.Interp, a []interface{}) interface{} {
		in.APILet(a[0].(string), a[1])
		return []string{"r1", "r2"}
	}
	in.Funcs["apiYield"] = func(in *mj.Interp, a []interface{}) interface{} {
		var ok bool
		if len(a) > 1 {
			ok = in.APIYield(a[0].(string), a[1], true)
		} else {
			ok = in.APIYield(a[0].(string), nil, false)
		}
		if !ok {
			in.Fail("unknown-block", "apiYield")
		}
		return nil
	}
}

// ---- generator ----

type c18Gen struct {
	t      *rapid.T
	p      *mj.Program
	uniq   int
	nfile  int
	labels map[string]bool
	nglob  int
}

func (g *c18Gen) n(lo, hi int, l string) int { return rapid.IntRange(lo, hi).Draw(g.t, l) }
func (g *c18Gen) id(p string) string         { g.uniq++; return fmt.Sprintf("%s%d", p, g.uniq) }

func (g *c18Gen) val() *mj.Expr {
	if g.n(0, 2, "valnum") == 0 {
		return mj.Num(float64(g.n(0, 9, "num")))
	}
	return mj.Str(g.id("v"))
}

func api(fn string, args ...*mj.Expr) *mj.Node { return mj.Print(mj.Call(fn, args...)) }

func (g *c18Gen) stmts(depth int, vis []string) []*mj.Node {
	// every body opens its scope with a template-level declaration first
	out := []*mj.Node{mj.Let(g.id("open"), mj.Num(0))}
	for k := g.n(1, 5, "nstmts"); k > 0; k-- {
		kind := g.n(0, 15, "stmt")
		if depth >= 4 && kind >= 9 {
			kind = kind % 9
		}
		name := c07Locals[g.n(0, 2, "name")]
		switch kind {
		case 0, 1:
			g.labels["api-let"] = true
			if g.n(0, 5, "letInElseOfEmptyRange") == 0 {
				// a declaring range over nothing: what Go code declares in its else branch (no := before it) is gone
				// after {{end}}, as a := at the same spot would be - and leaves a variable of that name further out alone
				g.p.Vars["emptyxs"] = mj.RInts()
				known := false
				for _, nm := range vis {
					known = known || nm == name
				}
				rn := &mj.Node{K: "range", Names: []string{g.id("ri"), g.id("rv")}, Decl: true, E: mj.Var("emptyxs"), Body: []*mj.Node{mj.Text("never")}, HasElse: true,
					Else: []*mj.Node{api("apiLet", mj.Str(name), mj.Str(g.id("else-let"))), mj.Text("(in else " + name + "="), mj.Print(mj.Var(name)), mj.Text(")")}}
				out = append(out, rn, mj.Text("(after the range "+name+" set:"), mj.Print(mj.Call("isset", mj.Var(name))))
				if known {
					out = append(out, mj.Text(" value:"), mj.Print(mj.Var(name)))
				}
				out = append(out, mj.Text(")"))
				g.labels["api-let-in-the-else-branch-of-a-declaring-range"] = true
				continue
			}
			if g.n(0, 5, "letReflectValue") == 0 {
				// the value bound is a reflect.Value (a struct like any other): what is bound is that struct, as with :=
				g.p.Vars["rv"] = mj.Recipe{T: "reflect-value"}
				out = append(out, api("apiLet", mj.Str(name), mj.Var("rv")), mj.Text("(fields of what "+name+" holds:"), mj.Print(mj.Call("len", mj.Var(name))), mj.Text(")"))
				g.labels["api-binds-a-reflect.Value"] = true
				vis = with(vis, name)
				continue
			}
			out = append(out, api("apiLet", mj.Str(name), g.val()))
			vis = with(vis, name)
		case 2:
			out = append(out, mj.Let(name, g.val()))
			vis = with(vis, name)
		case 3:
			if len(vis) == 0 {
				continue
			}
			g.labels["api-set"] = true
			out = append(out, api("apiSet", mj.Str(vis[g.n(0, len(vis)-1, "setname")]), g.val()))
		case 4:
			if len(vis) == 0 {
				continue
			}
			out = append(out, mj.Set(vis[g.n(0, len(vis)-1, "setname2")], g.val()))
		case 5:
			g.labels["api-setorlet"] = true
			if g.n(0, 2, "invalidFirst") == 0 && depth < 4 {
				// the variable exists but holds no value: SetOrLet from a deeper scope must still rebind it
				g.labels["api-setorlet-on-invalid-valued-variable"] = true
				out = append(out, mj.Let(name, mj.Nil()), mj.If(mj.Bool(true), []*mj.Node{mj.Let(g.id("open"), mj.Num(0)), api("apiSetOrLet", mj.Str(name), g.val())}, nil),
					mj.Text("("+name+" after="), mj.Print(mj.Var(name)), mj.Text(")"))
				vis = with(vis, name)
				continue
			}
			if g.n(0, 3, "setOrLetGlobalName") == 0 {
				// a name that resolves, but only to a Set global / a built-in: there is nothing to Set, so it is declared
				gname := []string{"gset", "lower"}[g.n(0, 1, "solName")]
				g.labels["api-setorlet-on-a-name-that-is-only-a-global"] = true
				out = append(out, api("apiSetOrLet", mj.Str(gname), g.val()), mj.Text("("+gname+" now="), mj.Print(mj.Var(gname)), mj.Text(")"))
				continue
			}
			out = append(out, api("apiSetOrLet", mj.Str(name), g.val()))
			vis = with(vis, name)
		case 6:
			if g.n(0, 2, "resolveDot") == 0 {
				g.labels["api-resolve-dot"] = true
				out = append(out, mj.Text("(resolve .="), api("apiResolve", mj.Str(".")), mj.Text(")"))
			}
			if len(vis) > 0 {
				v := vis[g.n(0, len(vis)-1, "resolvename")]
				g.labels["api-resolve"] = true
				out = append(out, mj.Text("("+v+"="), api("apiResolve", mj.Str(v)), mj.Text(")"))
			}
			out = append(out, mj.Text("(isset "+name+":"), mj.Print(mj.Call("isset", mj.Var(name))), mj.Text(")"))
		case 7:
			g.labels["api-context"] = true
			out = append(out, mj.Text("(.="), api("apiCtx"), mj.Text(")"))
		case 8:
			g.labels["api-yieldblock"] = true
			if g.n(0, 1, "yctx") == 0 {
				g.labels["api-yieldblock-with-context"] = true
				if g.n(0, 2, "yctxNothingBehind") == 0 {
					// a context with nothing behind it (nil pointer, nil map, nil slice) is still the context handed over
					nm := []string{"nilu", "nomap", "noxs"}[g.n(0, 2, "yctxNilKind")]
					g.p.Vars[nm] = mj.Recipe{T: map[string]string{"nilu": "nil*user", "nomap": "nilmap", "noxs": "nil[]int"}[nm]}
					g.labels["api-yieldblock-with-typed-nil-context"] = true
					out = append(out, api("apiYield", mj.Str(g.yieldable()), mj.Var(nm)))
				} else {
					out = append(out, api("apiYield", mj.Str(g.yieldable()), mj.Str(g.id("yctx"))))
				}
			} else {
				out = append(out, api("apiYield", mj.Str(g.yieldable())))
			}
		case 9:
			g.nglob++
			gn := fmt.Sprintf("glob%d", g.nglob)
			g.labels["api-letglobal"] = true
			if depth >= 2 {
				g.labels["api-at-depth>=2"] = true
			}
			out = append(out, mj.Text("(before "+gn+":"), mj.Print(mj.Call("isset", mj.Var(gn))), mj.Text(")"), api("apiLetGlobal", mj.Str(gn), g.val()), mj.Text("(after "+gn+"="), mj.Print(mj.Var(gn)), mj.Text(")"))
		case 10:
			out = append(out, mj.If(mj.Bool(true), g.stmts(depth+1, vis), nil))
		case 11:
			iv, vv := g.id("i"), g.id("e")
			subject := mj.Call("slice", mj.Str("r1"), mj.Str("r2"))
			if g.n(0, 2, "letInRangeHeader") == 0 {
				// the ranged-over expression calls a function that declares a variable: it is evaluated at the
				// range statement, so the declaration belongs to the scope the statement stands in
				g.labels["api-let-in-range-header"] = true
				subject = mj.Call("apiLetList", mj.Str(name), g.val())
				vis = with(vis, name)
			}
			out = append(out, &mj.Node{K: "range", Names: []string{iv, vv}, Decl: true, E: subject, Body: g.stmts(depth+1, with(vis, iv, vv))})
		case 12:
			out = append(out, &mj.Node{K: "range", E: mj.Call("slice", mj.Str("c1"), mj.Str("c2")), Body: g.stmts(depth+1, vis)})
		case 13:
			n := &mj.Node{K: "block", Name: g.id("blk"), Body: g.stmts(depth+1, vis)}
			if g.n(0, 1, "bctx") == 0 {
				n.Ctx = mj.Str(g.id("bctx"))
			}
			out = append(out, n)
		case 14:
			g.nfile++
			f := &mj.File{Path: fmt.Sprintf("/inc/f%d.jet", g.nfile), Body: g.stmts(depth+1, vis)}
			if g.n(0, 1, "includeWithoutOpeningDecl") == 0 {
				// an included template is a scope of its own from its first action on: no opening declaration needed
				f.Body = f.Body[1:]
				g.labels["include-body-starts-with-api-call"] = true
			}
			g.p.Files = append(g.p.Files, f)
			n := &mj.Node{K: "include", E: mj.Str(f.Path)}
			if g.n(0, 1, "ictx") == 0 {
				n.Ctx = mj.Str(g.id("ictx"))
			}
			out = append(out, n)
			// whatever the included template declared (through syntax or through the API) stays inside it
			for _, ln := range c07Locals {
				out = append(out, mj.Text("(after include, isset "+ln+":"), mj.Print(mj.Call("isset", mj.Var(ln))), mj.Text(")"))
			}
		default:
			out = append(out, mj.Text(g.id("t")))
		}
	}
	// what is visible at the end of the body, read through the API and through syntax
	for _, v := range vis {
		if g.n(0, 1, "tailprobe") == 0 {
			out = append(out, mj.Text("("+v+"="), api("apiResolve", mj.Str(v)), mj.Text(")"))
		}
	}
	return out
}

// twin replaces API statements by the syntax they are supposed to mirror.
func c18Twin(ns []*mj.Node) []*mj.Node {
	var out []*mj.Node
	for _, n := range ns {
		c := *n
		c.Body, c.Else, c.Content, c.Catch = c18Twin(n.Body), c18Twin(n.Else), c18Twin(n.Content), c18Twin(n.Catch)
		if n.K == "range" && n.E != nil && n.E.K == "call" && n.E.Name == "apiLetList" {
			out = append(out, mj.Let(n.E.Args[0].S, n.E.Args[1]))
			c.E = mj.Call("slice", mj.Str("r1"), mj.Str("r2"))
		}
		if n.K == "print" && n.E.K == "call" {
			a := n.E.Args
			switch n.E.Name {
			case "apiLet":
				c = *mj.Let(a[0].S, a[1])
			case "apiSet":
				c = *mj.Set(a[0].S, a[1])
			case "apiResolve":
				c = *mj.Print(mj.Var(a[0].S))
				if a[0].S == "." {
					c = *mj.Print(mj.Dot())
				}
			case "apiCtx":
				c = *mj.Print(mj.Dot())
			case "apiYield":
				c = mj.Node{K: "yield", Name: a[0].S}
				if len(a) > 1 {
					c.Ctx = a[1]
				}
			}
		}
		out = append(out, &c)
	}
	return out
}

// yieldable: the block a Go helper yields - the one of the template itself (all parameters have defaults) or the
// imported one with a parameter that has none
func (g *c18Gen) yieldable() string {
	if g.n(0, 2, "yieldBare") == 0 {
		g.labels["api-yieldblock-of-a-block-with-a-default-less-parameter"] = true
		return "bare"
	}
	return "shared"
}

func genC18(t *rapid.T) c18Case {
	if rapid.IntRange(0, 4).Draw(t, "kind") == 0 {
		return genC18Args(t)
	}
	g := &c18Gen{t: t, labels: map[string]bool{}}
	g.p = &mj.Program{Entry: "/main.jet", Vars: map[string]mj.Recipe{"ev": mj.RStr("EV0")}, Globals: map[string]mj.Recipe{"gset": mj.RStr("GSET")}}
	d := mj.RStr("CTX")
	g.p.Data = &d
	main := &mj.File{Path: "/main.jet", Imports: []string{"/lib18.jet"}}
	// (an imported block with a parameter that has no default: a yield that leaves it out binds it to false, from Go
	// code as from a template)
	lib18 := &mj.File{Path: "/lib18.jet", Body: []*mj.Node{{K: "block", Name: "bare", Params: []mj.Param{{Name: "label"}, {Name: "color", E: mj.Str("grey")}}, Body: []*mj.Node{mj.Text("{bare .="), mj.Print(mj.Dot()), mj.Text(" label="), mj.Print(mj.Var("label")), mj.Text(" color="), mj.Print(mj.Var("color")), mj.Text("}")}}}}
	g.p.Files = []*mj.File{main, lib18}
	// (a block with a parameter: yielded from Go code it gets its default like everywhere else)
	body := []*mj.Node{mj.Text("<"), {K: "block", Name: "shared", Params: []mj.Param{{Name: "sp", E: mj.Str("sp-default")}}, Body: []*mj.Node{mj.Text("{shared .="), mj.Print(mj.Dot()), mj.Text(" sp="), mj.Print(mj.Var("sp")), mj.Text("}")}}}
	vis0 := []string{"ev"}
	if g.n(0, 4, "noVarMap") == 0 {
		// Execute(w, nil, data): the first thing that happens is a declaration through the API
		g.p.NilVars, g.p.Vars, vis0 = true, map[string]mj.Recipe{}, nil
		g.labels["executed-without-a-varmap"] = true
		fn := []string{"apiLet", "apiLetGlobal", "apiSetOrLet"}[g.n(0, 2, "firstApi")]
		body = append(body, api(fn, mj.Str("first"), mj.Str("F")), mj.Text("(first="), mj.Print(mj.Var("first")), mj.Text(")"))
	}
	body = append(body, g.stmts(0, vis0)...)
	for i := 1; i <= g.nglob; i++ {
		gn := fmt.Sprintf("glob%d", i)
		body = append(body, mj.Text("(end "+gn+"="), mj.Print(mj.Var(gn)), mj.Text(")"))
	}
	main.Body = append(body, mj.Text("(.="), api("apiCtx"), mj.Text(")>"))
	c := c18Case{Kind: "scopes", Prog: g.p}
	src := mj.NewPrinter().Sources(g.p)
	var paths []string
	for p := range src {
		paths = append(paths, p)
	}
	sort.Strings(paths)
	for _, p := range paths {
		c.Src = append(c.Src, p+": "+src[p])
	}
	for k := range g.labels {
		c.Labels = append(c.Labels, k)
	}
	sort.Strings(c.Labels)
	return c
}

func judgeC18(c c18Case) (v core.Verdict) {
	if c.Kind == "arguments" {
		return judgeC18Args(c)
	}
	v.Label(c.Labels...)
	for _, l := range c.Labels {
		if l == "api-at-depth>=2" || l == "api-yieldblock-with-context" || l == "api-setorlet" {
			v.NonTrivial = true
		}
	}
	want, discard := mj.ModelRun(c.Prog, c18ModelSetup)
	if discard != "" {
		v.Discard = "model:" + discard
		return
	}
	got, _, src := mj.EngineRun(c.Prog, c18Funcs())
	twin := *c.Prog
	twin.Files = nil
	for _, f := range c.Prog.Files {
		tf := *f
		tf.Body = c18Twin(f.Body)
		twin.Files = append(twin.Files, &tf)
	}
	gotTwin, _, twinSrc := mj.EngineRun(&twin, c18Funcs())
	desc := fmt.Sprintf("API form %q", src)
	if got.Panicked {
		v.Failf("%s: Execute panicked: %s", desc, got.PanicVal)
		return
	}
	if (got.Err == nil) != (gotTwin.Err == nil) || (got.Err == nil && got.Out != gotTwin.Out) {
		v.Failf("%s\n renders %s\nbut its syntax twin %q\n renders %s", desc, got, twinSrc, gotTwin)
		return
	}
	if want.Err != nil {
		v.Label("expect-error")
		if got.Err == nil {
			v.Failf("%s: must fail (%s) but rendered %q", desc, want.Err.Msg, got.Out)
		}
		return
	}
	if got.Err != nil || got.Out != want.Out {
		v.Failf("%s:\n got  %s\n want %q", desc, got, want.Out)
	}
	return
}

// ---- Arguments accessors ----

func genC18Args(t *rapid.T) c18Case {
	// argument shapes: plain, piped, slot at each index, too many
	args := []string{}
	n := rapid.IntRange(0, 3).Draw(t, "nargs")
	pool := []string{`"s1"`, "2", "ev", `"x y"`, "7", "3.5", "true", "nil", "absent.key", "count()"}
	numeric := rapid.IntRange(0, 3).Draw(t, "numericArgs") == 0
	if numeric {
		// numbers only - literals, variables, and direct results of functions returning interface{} -
		// parsed into *int / *float64 / *int64 / *reflect.Value targets
		pool = []string{"2", "7", "3.5", "zero", "anyInt()", "anyFloat()", "anyInt() + 1", "i64", "count()", "count() + count()"}
		if n == 0 {
			n = 1
		}
	}
	for i := 0; i < n; i++ {
		args = append(args, pool[rapid.IntRange(0, len(pool)-1).Draw(t, "arg")])
	}
	piped := pool[rapid.IntRange(0, len(pool)-1).Draw(t, "piped")]
	// (one counting argument per call: with two of them the piped form and the plain form evaluate them in a
	// different order, and which order is right is not stated)
	seenCount := strings.Contains(piped, "count()")
	for i := range args {
		if strings.Contains(args[i], "count()") {
			if seenCount {
				args[i] = "7"
			}
			seenCount = true
		}
	}
	var call, plainCall func(fn string) string
	plainCall = func(fn string) string { return fn + "(" + strings.Join(append([]string{piped}, args...), ", ") + ")" }
	switch rapid.IntRange(0, 3).Draw(t, "shape") {
	case 0:
		call = func(fn string) string { return fn + "(" + strings.Join(args, ", ") + ")" }
		plainCall = call
	case 1:
		call = func(fn string) string {
			s := piped + " | " + fn
			if len(args) > 0 {
				s += ": " + strings.Join(args, ", ")
			}
			return s
		}
	case 2:
		call = func(fn string) string { return piped + " | " + fn + "(" + strings.Join(args, ", ") + ")" }
	default:
		pos := rapid.IntRange(0, n).Draw(t, "slotpos")
		withSlot := append(append(append([]string{}, args[:pos]...), "_"), args[pos:]...)
		call = func(fn string) string { return piped + " | " + fn + "(" + strings.Join(withSlot, ", ") + ")" }
		inPlace := append(append(append([]string{}, args[:pos]...), piped), args[pos:]...)
		plainCall = func(fn string) string { return fn + "(" + strings.Join(inPlace, ", ") + ")" }
	}
	which := rapid.SampledFrom([]string{"get", "parse", "isset"}).Draw(t, "which")
	if numeric {
		which = "parsenum"
	}
	c := c18Case{Kind: "arguments"}
	hasNil := false
	for _, a := range append([]string{piped}, args...) {
		if a == "nil" || a == "absent.key" {
			hasNil = true
		}
	}
	if hasNil && which == "parse" {
		which = "get" // ParseInto rejects invalid values by contract
	}
	switch which {
	case "get":
		if hasNil {
			// nil is not a valid reflected argument: the reference is the plain call f(a, b, c) with every value spelled at its position
			c.Tpl, c.Twin = "[{{ "+call("argsGet")+" }}]", "[{{ "+plainCall("reflGet")+" }}]"
		} else {
			c.Tpl, c.Twin = "[{{ "+call("argsGet")+" }}]", "[{{ "+call("reflGetR")+" }}]"
		}
	case "parse":
		c.Tpl, c.Twin = "[{{ "+call("argsParse")+" }}]", "[{{ "+call("reflParse")+" }}]"
	case "parsenum":
		c.Tpl, c.Twin = "[{{ "+call("argsParseNum")+" }}]", "[{{ "+call("reflParseNum")+" }}]"
	default:
		// IsSet on identifier arguments: defined, undefined, nil-valued
		ia := []string{}
		var want []string
		for i := 0; i < rapid.IntRange(1, 3).Draw(t, "nisset"); i++ {
			k := rapid.IntRange(0, 3).Draw(t, "issetarg")
			ia = append(ia, []string{"ev", "undefinedName", "nilvar", "zero"}[k])
			want = append(want, []string{"true", "false", "false", "true"}[k])
		}
		c.Tpl = "[{{ argsIsSet(" + strings.Join(ia, ", ") + ") }}]"
		c.Twin = "[" + strings.Join(want, ",") + "]"
		switch rapid.IntRange(0, 2).Draw(t, "issetShape") {
		case 1: // the first argument arrives through the pipe
			pk := rapid.IntRange(0, 3).Draw(t, "issetPiped")
			pv, pw := []string{"ev", "nilvar", "zero", "nilmap"}[pk], []string{"true", "false", "true", "false"}[pk]
			c.Tpl = "[{{ " + pv + " | argsIsSet: " + strings.Join(ia, ", ") + " }}]"
			c.Twin = "[" + strings.Join(append([]string{pw}, want...), ",") + "]"
		case 2: // ... or sits in a slot behind the written ones
			pk := rapid.IntRange(0, 3).Draw(t, "issetPiped")
			pv, pw := []string{"ev", "nilvar", "zero", "nilmap"}[pk], []string{"true", "false", "true", "false"}[pk]
			c.Tpl = "[{{ " + pv + " | argsIsSet(" + strings.Join(append(append([]string{}, ia...), "_"), ", ") + ") }}]"
			c.Twin = "[" + strings.Join(append(append([]string{}, want...), pw), ",") + "]"
		}
	}
	return c
}

func c18ArgVars() jet.VarMap {
	vars := jet.VarMap{}
	vars.Set("ev", "EV0")
	vars.Set("zero", 0)
	vars["nilvar"] = reflect.ValueOf((*int)(nil))
	vars.Set("nilmap", map[string]int(nil))
	show := func(vs []interface{}) string {
		var parts []string
		for _, x := range vs {
			parts = append(parts, fmt.Sprintf("%T:%v", x, x))
		}
		return fmt.Sprintf("%d[%s]", len(vs), strings.Join(parts, ","))
	}
	vars.SetFunc("argsGet", func(a jet.Arguments) reflect.Value {
		var vs []interface{}
		for i := 0; i < a.NumOfArguments(); i++ {
			if v := a.Get(i); v.IsValid() {
				vs = append(vs, v.Interface())
			} else {
				vs = append(vs, nil)
			}
		}
		return reflect.ValueOf(show(vs))
	})
	// the reference for nil arguments cannot be a reflected function (nil is not a valid reflected argument):
	// a second jet.Func that is only ever called in plain form f(a, b, c)
	vars.SetFunc("reflGet", func(a jet.Arguments) reflect.Value {
		var vs []interface{}
		for i := 0; i < a.NumOfArguments(); i++ {
			if v := a.Get(i); v.IsValid() {
				vs = append(vs, v.Interface())
			} else {
				vs = append(vs, nil)
			}
		}
		return reflect.ValueOf(show(vs))
	})
	vars.Set("reflGetR", func(vs ...interface{}) string { return show(vs) })
	vars.Set("absent", map[string]interface{}{"present": 1})
	vars.SetFunc("argsParse", func(a jet.Arguments) reflect.Value {
		ptrs := make([]interface{}, a.NumOfArguments())
		vals := make([]interface{}, a.NumOfArguments())
		for i := range ptrs {
			ptrs[i] = &vals[i]
		}
		if err := a.ParseInto(ptrs...); err != nil {
			a.Panicf("%v", err)
		}
		return reflect.ValueOf(show(vals))
	})
	vars.Set("reflParse", func(vs ...interface{}) string { return show(vs) })
	// a function that counts its calls (fresh for every execution): an argument is evaluated once
	calls := 0
	vars.Set("count", func() int { calls++; return calls })
	vars.Set("anyInt", func() interface{} { return 3 })
	vars.Set("anyFloat", func() interface{} { return 2.5 })
	vars.Set("i64", int64(64))
	toF := func(x interface{}) float64 {
		v := reflect.ValueOf(x)
		if v.Kind() == reflect.Float64 || v.Kind() == reflect.Float32 {
			return v.Float()
		}
		return float64(v.Int())
	}
	// typed targets by position: *int, *float64, *int64, *reflect.Value
	vars.SetFunc("argsParseNum", func(a jet.Arguments) reflect.Value {
		n := a.NumOfArguments()
		ints, floats, int64s, vals := make([]int, n), make([]float64, n), make([]int64, n), make([]reflect.Value, n)
		ptrs := make([]interface{}, n)
		for i := range ptrs {
			ptrs[i] = []interface{}{&ints[i], &floats[i], &int64s[i], &vals[i]}[i%4]
		}
		if err := a.ParseInto(ptrs...); err != nil {
			a.Panicf("%v", err)
		}
		var parts []string
		for i := 0; i < n; i++ {
			switch i % 4 {
			case 0:
				parts = append(parts, fmt.Sprintf("int:%d", ints[i]))
			case 1:
				parts = append(parts, fmt.Sprintf("float64:%g", floats[i]))
			case 2:
				parts = append(parts, fmt.Sprintf("int64:%d", int64s[i]))
			default:
				parts = append(parts, fmt.Sprintf("value:%s:%v", vals[i].Kind(), vals[i].Interface()))
			}
		}
		return reflect.ValueOf(strings.Join(parts, ","))
	})
	vars.Set("reflParseNum", func(vs ...interface{}) string {
		var parts []string
		for i, x := range vs {
			switch i % 4 {
			case 0:
				parts = append(parts, fmt.Sprintf("int:%d", int(toF(x))))
			case 1:
				parts = append(parts, fmt.Sprintf("float64:%g", toF(x)))
			case 2:
				parts = append(parts, fmt.Sprintf("int64:%d", int64(toF(x))))
			default:
				parts = append(parts, fmt.Sprintf("value:%s:%v", reflect.ValueOf(x).Kind(), x))
			}
		}
		return strings.Join(parts, ",")
	})
	_ = plainCallDoc
	vars.SetFunc("argsIsSet", func(a jet.Arguments) reflect.Value {
		var parts []string
		for i := 0; i < a.NumOfArguments(); i++ {
			parts = append(parts, fmt.Sprint(a.IsSet(i)))
		}
		return reflect.ValueOf(strings.Join(parts, ","))
	})
	return vars
}

func judgeC18Args(c c18Case) (v core.Verdict) {
	v.NonTrivial = strings.Contains(c.Tpl, "_") || strings.Contains(c.Tpl, "|")
	v.Label("arguments")
	run := func(tpl string) jetrun.Outcome {
		s, _ := jetrun.NewSet(map[string]string{"/t.jet": tpl})
		t, o := jetrun.Get(s, "/t.jet")
		if o.Failed() {
			return o
		}
		return jetrun.Exec(t, c18ArgVars(), nil)
	}
	a := run(c.Tpl)
	if a.Panicked {
		v.Failf("%s: Execute panicked: %s", c.Tpl, a.PanicVal)
		return
	}
	if !strings.Contains(c.Twin, "{{") {
		if a.Failed() || a.Out != c.Twin {
			v.Failf("%s: rendered %s, want %q", c.Tpl, a, c.Twin)
		}
		return
	}
	b := run(c.Twin)
	if (a.Err == nil) != (b.Err == nil) || (a.Err == nil && a.Out != b.Out) {
		v.Failf("Arguments accessors and a reflected function disagree:\n %s -> %s\n %s -> %s", c.Tpl, a, c.Twin, b)
	}
	return
}

func TestC18(t *testing.T) {
	core.Run(t, "C18",
		"(a) programs that drive Runtime.Let / Set / SetOrLet / LetGlobal / Resolve / Context / YieldBlock (contexts: strings, nil pointer, nil map, nil slice) through custom functions (also with Execute given no VarMap, SetOrLet on names that are only globals / built-ins, a yielded block with a defaulted parameter), interleaved with template-level := and = and nested (depth<=4) in if / range (both context modes) / block (with context) / include (with context); round 10: Runtime.YieldBlock on an imported block with a parameter that has no default; a reflect.Value bound through Let; round 11: Runtime.Let as the first thing in the else branch of a declaring range over nothing; oracle = the syntax twin (API statements replaced by the syntax they mirror) rendered by the engine, and the MiniJet reference interpreter with API mirror functions; (b) Arguments.Get / NumOfArguments / ParseInto (into *interface{} targets, and numbers - literals, variables, direct results of interface{}-returning functions - into *int / *float64 / *int64 / *reflect.Value) versus a reflected variadic function for plain, piped and slot-placed argument shapes, IsSet on defined / undefined / nil identifiers, an argument that counts its evaluations; non-trivial = an API call at depth>=2, YieldBlock with a context, SetOrLet, or a piped/slot shape",
		genC18, judgeC18)
}

func TestC18Replay(t *testing.T) { core.Replay(t, "C18", judgeC18) }

// plainCallDoc: for Get the reference is the plain call with every value spelled at its position.
const plainCallDoc = ""
