package checks

// C14 — pipelines, prefix calls and piped-argument slots are equivalent to
// plain calls (Go functions, methods, jet.Func alike); each stage runs exactly
// once, left to right; arguments are converted to the parameter types;
// documented built-ins compute what the Go function they expose computes.

import (
	"bytes"
	"encoding/json"
	"fmt"
	"html"
	"io"
	"net/url"
	"reflect"
	"strconv"
	"strings"
	"testing"

	"jetverif/core"
	"jetverif/jetrun"
	"jetverif/mj"

	"github.com/CloudyKit/jet/v6"
	"pgregory.net/rapid"
)

// ---- recording callables ----

type c14Obj struct{ Tag string }

type c14Rec struct{ log *[]string }

func (r c14Rec) note(name string, args ...interface{}) string {
	var parts []string
	for _, a := range args {
		parts = append(parts, fmt.Sprintf("%T:%v", a, a))
	}
	s := name + "(" + strings.Join(parts, ",") + ")"
	*r.log = append(*r.log, s)
	return s
}

type c14Callable struct {
	name   string // identifier or obj.Method
	params string // S = string, I = int; trailing V = variadic ints
}

// c14Name is a defined string type: a string argument has the same kind but must still be converted
type c14Name string

// c14Any is an empty interface type with a name
type c14Any interface{}

var c14Callables = []c14Callable{
	// (indices are part of saved cases: append only)
	{"f1", "S"}, {"f2", "SI"}, {"f3", "SSS"}, {"fv", "SV"}, {"g2", "IS"}, {"jf", "SSI"}, {"obj.Join", "SS"}, {"pobj.PJoin", "SI"}, {"f2", "SI"}, {"f3", "SSS"},
	{"fd", "SI"}, {"fd1", "S"},
	// pf: a jet.Func that reads its arguments with ParseInto; lz: a jet.Func that hands back a Renderer which
	// reads the arguments only when it is rendered (last stage only)
	{"pf", "SI"}, {"lz", "SS"},
	// uf: like jf, but stored as a plain func(jet.Arguments) reflect.Value (VarMap.Set), not as a jet.Func
	{"uf", "SSI"},
	// methods whose exported names begin with a non-ASCII upper case letter
	{"obj.Ünï", "SS"}, {"pobj.Élan", "SI"},
	// a pointer-receiver method of a defined type that is not a struct, reached through a pointer
	{"pstack.Note", "SI"},
	// functions that are not named by an identifier or a field: taken out of a map / a struct's map
	{`fns["two"]`, "SI"}, {`tools.Funcs["three"]`, "SSS"}, {`fns["jf"]`, "SSI"},
}

type c14Methods struct {
	rec c14Rec
	Tag string
}

func (m *c14Methods) NilSafe(a string) string {
	if m == nil {
		return "nil-receiver:" + a
	}
	return "receiver:" + a
}
func (m c14Methods) Join(a, b string) string       { return m.rec.note("Join", a, b) }
func (m *c14Methods) PJoin(a string, b int) string { return m.rec.note("PJoin", a, b) }

// c14Notes: a defined slice type with a pointer-receiver method
type c14Notes []c14Rec

func (n *c14Notes) Note(a string, b int) string { return (*n)[0].note("Note", a, b) }

func (m c14Methods) Ünï(a, b string) string       { return m.rec.note("Ünï", a, b) }
func (m *c14Methods) Élan(a string, b int) string { return m.rec.note("Élan", a, b) }

func c14Vars(log *[]string, jfName string) jet.VarMap {
	r := c14Rec{log}
	vars := jet.VarMap{}
	vars.Set("f1", func(a string) string { return r.note("f1", a) })
	vars.Set("f2", func(a string, b int) string { return r.note("f2", a, b) })
	vars.Set("f3", func(a, b, c string) string { return r.note("f3", a, b, c) })
	vars.Set("fv", func(a string, rest ...int) string {
		args := []interface{}{a}
		for _, x := range rest {
			args = append(args, x)
		}
		return r.note("fv", args...)
	})
	vars.Set("g2", func(n int, s string) string { return r.note("g2", n, s) })
	jfTwin := jet.Func(func(a jet.Arguments) reflect.Value {
		var args []interface{}
		for i := 0; i < a.NumOfArguments(); i++ {
			if v := a.Get(i); v.IsValid() {
				args = append(args, v.Interface())
			} else {
				args = append(args, nil)
			}
		}
		return reflect.ValueOf(r.note(`fns["jf"]`, args...))
	})
	vars.Set("fns", map[string]interface{}{"two": func(a string, b int) string { return r.note(`fns["two"]`, a, b) }, "jf": jfTwin})
	vars.Set("tools", struct {
		Funcs map[string]func(a, b, c string) string
	}{map[string]func(a, b, c string) string{"three": func(a, b, c string) string { return r.note(`tools.Funcs["three"]`, a, b, c) }}})
	vars.Set("id", func(x interface{}) interface{} { return x })
	// the same with a result type that is an empty interface with a name of its own (database/sql/driver.Value is one)
	vars.Set("idn", func(x interface{}) c14Any { return x })
	// a plain Go function that happens to take a writer and bytes (not a jet.SafeWriter): called like any function
	sink := new(bytes.Buffer)
	vars.Set("sink", sink)
	vars.Set("tee", func(w io.Writer, b []byte) { w.Write(bytes.ToUpper(b)) })
	vars.Set("sinkText", func() string { return sink.String() })
	// a parameter of an interface type that has methods
	vars.Set("fs1", func(s fmt.Stringer) string { return r.note("fs1", s.String()) })
	ticks := 0
	vars.Set("tick", func() string { ticks++; return fmt.Sprintf("k%d", ticks) })
	vars.Set("kname", c14Name("named"))
	vars.Set("nilfn", (func(string) string)(nil))
	vars.Set("niljf", jet.Func(nil))
	vars.Set("fholder", struct{ F func(string) string }{})
	vars.Set("xsl", []int{1})
	vars.Set("arr4", func(p *[4]int) int { return p[0] })
	vars.Set("arr2v", func(p [2]int) int { return p[0] })
	// variadic tails of an interface type that has methods: only values that implement it are arguments
	vars.Set("fstr", func(a string, rest ...fmt.Stringer) string { return r.note("fstr", a, len(rest)) })
	vars.Set("ferr", func(a string, rest ...error) string { return r.note("ferr", a, len(rest)) })
	vars.Set("strg", mj.Strg{S: "stringer"})
	vars.Set("fd", func(a c14Name, b int) string { return r.note("fd", string(a), b) })
	vars.Set("fd1", func(a c14Name) string { return r.note("fd1", string(a)) })
	// jet.Func and a reflected variadic twin must see the same argument list
	vars.SetFunc("jf", func(a jet.Arguments) reflect.Value {
		var args []interface{}
		for i := 0; i < a.NumOfArguments(); i++ {
			v := a.Get(i)
			if v.IsValid() {
				args = append(args, v.Interface())
			} else {
				args = append(args, nil)
			}
		}
		return reflect.ValueOf(r.note("jf", args...))
	})
	vars.Set("rf", func(args ...interface{}) string { return r.note("jf", args...) })
	vars.Set("uf", func(a jet.Arguments) reflect.Value {
		var args []interface{}
		for i := 0; i < a.NumOfArguments(); i++ {
			if v := a.Get(i); v.IsValid() {
				args = append(args, v.Interface())
			} else {
				args = append(args, nil)
			}
		}
		return reflect.ValueOf(r.note("uf", args...))
	})
	vars.SetFunc("pf", func(a jet.Arguments) reflect.Value {
		var s string
		var n int
		if err := a.ParseInto(&s, &n); err != nil {
			a.Panicf("pf: %v", err)
		}
		return reflect.ValueOf(r.note("pf", s, n))
	})
	vars.SetFunc("lz", func(a jet.Arguments) reflect.Value {
		return reflect.ValueOf(jet.RendererFunc(func(rt *jet.Runtime) {
			var args []interface{}
			for i := 0; i < a.NumOfArguments(); i++ {
				args = append(args, a.Get(i).Interface())
			}
			r.note("lz", args...)
			rt.Write([]byte("LZ"))
		}))
	})
	vars.Set("pstack", &c14Notes{r})
	vars.Set("obj", c14Methods{rec: r, Tag: "o"})
	vars.Set("pobj", &c14Methods{rec: r, Tag: "p"})
	vars["nilv"] = reflect.Value{}
	vars.Set("mm", map[string]interface{}{"k": "v"})
	vars.Set("bv", []byte("  By Tes  "))
	vars.Set("ih", mj.Build(mj.Recipe{T: "iface-holder"})) // collections in slots of interface types that have methods
	// integers that a float64 cannot hold: what a function reads out of its arguments is the integer it was handed
	vars.Set("big", int64(1<<53+1))
	vars.Set("bigneg", -(1<<62 + 3))
	vars.SetFunc("pf64", func(a jet.Arguments) reflect.Value {
		var n int64
		var m int
		if err := a.ParseInto(&n, &m); err != nil {
			a.Panicf("pf64: %v", err)
		}
		return reflect.ValueOf(fmt.Sprintf("pf64(%d,%d)", n, m))
	})
	vars.Set("rf64", func(n int64, m int) string { return fmt.Sprintf("rf64(%d,%d)", n, m) })
	vars.Set("nilobj", (*c14Methods)(nil))
	vars.Set("sv", "strvar")
	vars.Set("iv", 7)
	return vars
}

// ---- abstract chains ----

type c14Arg struct {
	Src string `json:"src"` // source text
	S   string `json:"s,omitempty"`
	I   int    `json:"i,omitempty"`
	IsI bool   `json:"is_i,omitempty"`
	// NoVal: an expression without a value (nil, an absent map entry, an invalid variable); only as the
	// base of a chain whose first stage is the jet.Func, which must see it as an argument like any other
	NoVal bool `json:"noval,omitempty"`
}

type c14Stage struct {
	Fn    int      `json:"fn"`    // index into c14Callables
	P     int      `json:"p"`     // position of the piped value
	Args  []c14Arg `json:"args"`  // the other arguments, in order
	Form  string   `json:"form"`  // nested | colon | paren | slot-paren | slot-colon
	Space bool     `json:"space"` // spaces around '|'
}

type c14Case struct {
	Kind   string     `json:"kind"` // chain | builtin | error
	Base   c14Arg     `json:"base"`
	Stages []c14Stage `json:"stages,omitempty"`
	Prefix bool       `json:"prefix,omitempty"` // first command written in prefix form  f: a, b
	Expr   string     `json:"expr"`
	Plain  string     `json:"plain"` // the same chain as nested plain calls
	// builtin
	Tpl  string `json:"tpl,omitempty"`
	Want string `json:"want,omitempty"`
}

func c14GenArg(t *rapid.T, kind byte, label string) c14Arg {
	if kind == 'S' {
		switch rapid.IntRange(0, 4).Draw(t, label+"S") {
		case 4: // ... through a function whose result type is a named empty interface
			s := rapid.SampledFrom([]string{"a", "bc", ""}).Draw(t, label+"idnlit")
			return c14Arg{Src: "idn(" + strconv.Quote(s) + ")", S: s}
		case 3: // handed through a function declared to return interface{}: the value inside is the argument
			s := rapid.SampledFrom([]string{"a", "bc", ""}).Draw(t, label+"idlit")
			return c14Arg{Src: "id(" + strconv.Quote(s) + ")", S: s}
		case 0:
			return c14Arg{Src: "sv", S: "strvar"}
		default:
			s := rapid.SampledFrom([]string{"a", "bc", "", "x y", "Z"}).Draw(t, label+"lit")
			return c14Arg{Src: strconv.Quote(s), S: s}
		}
	}
	switch rapid.IntRange(0, 4).Draw(t, label+"I") {
	case 4:
		return c14Arg{Src: "idn(iv)", I: 7, IsI: true}
	case 3:
		return c14Arg{Src: "id(iv)", I: 7, IsI: true}
	case 0:
		return c14Arg{Src: "iv", I: 7, IsI: true}
	default:
		n := rapid.IntRange(0, 9).Draw(t, label+"n")
		return c14Arg{Src: strconv.Itoa(n), I: n, IsI: true} // a float literal, converted to int
	}
}

func genC14(t *rapid.T) c14Case {
	switch rapid.IntRange(0, 10).Draw(t, "kind") {
	case 0, 1, 2:
		return genC14Builtin(t)
	case 10:
		// misuse that must be an error (never a panic, never silently accepted)
		tpl := rapid.SampledFrom([]string{
			`{{ raw: "x" | jf }}`, `{{ safeHtml: "x" | jf | f1 }}`, `{{ "x" | raw | jf }}`, `{{ "x" | unsafe | f1 }}`, `{{ raw: "x" | isset }}`,
			`{{ f1() }}`, `{{ f2("a") }}`, `{{ "a" | f2 }}`, `{{ f3("a", "b", "c", "d") }}`, `{{ "a" | f1: "b" }}`, `{{ pobj.PJoin("a") }}`,
			`{{ f1(nothing) }}`, `{{ nilv | f1 }}`, `{{ f2("a", nilv) }}`, `{{ fv("a", nilv) }}`, `{{ f2("a", "b") }}`, `{{ g2("a", "b") }}`, `{{ fv("a", 1, "x") }}`,
			`{{ f2("a", _) }}`, `{{ "a" | f3(_, _, "c") }}`,
			// a placeholder without anything piped in, also for jet.Func values and built-ins that are jet.Funcs
			`{{ jf(_, "x") }}`, `{{ uf("a", _) }}`, `{{ map("a", _) }}`, `{{ slice(_) }}`, `{{ pf(_, 1) }}`,
			// ... where the call is not the command of an action but part of an expression
			`{{ v := jf(_, "x") }}`, `{{ if jf(_) }}x{{ end }}`, `{{ f1(jf(_, "x")) }}`, `{{ jf(_) + "!" }}`, `{{ "a" | f1(jf(_)) }}`, `{{ v := "" }}{{ v = uf(_) }}`, `{{ range slice(_) }}x{{ end }}`, `{{ isset(map("k", _).k) }}{{ len(slice(_)) }}`,
			// functions that are nil; arguments that only look convertible
			`{{ nilfn("a") }}`, `{{ "a" | nilfn }}`, `{{ nilfn: "a" }}`, `{{ fholder.F("a") }}`, `{{ "a" | fholder.F }}`, `{{ niljf("a") }}`,
			`{{ arr4(xsl) }}`, `{{ xsl | arr4 }}`, `{{ arr2v(xsl) }}`,
			`{{ f1("x", _) }}`, `{{ f1: "x", _ }}`, `{{ f2("a", 1, _) }}`, `{{ obj.Join("a", "b", _) }}`, `{{ "p" | f2(f1("x", _), 1) }}`,
			`{{ fs1("a") }}`, `{{ "a" | fs1 }}`, `{{ fs1: iv }}`, `{{ fs1(mm) }}`,
			`{{ fstr("a", "b") }}`, `{{ fstr("a", strg, 1) }}`, `{{ fstr: "a", iv }}`, `{{ "x" | fstr("a", _) }}`, `{{ sv | fstr: "a" }}`, `{{ ferr("a", "b") }}`, `{{ ferr("a", strg) }}`, `{{ iv | ferr("a", _) }}`, `{{ ferr: "a", mm }}`,
			// built-ins handed values of the wrong kind (also where treating them as 0 would give a valid range)
			`{{ range ints("2", 5) }}x{{ end }}`, `{{ range ints(-2, "x") }}x{{ end }}`, `{{ range ints(true, 3) }}x{{ end }}`, `{{ range "1" | ints: 4 }}x{{ end }}`, `{{ range ints(sv, iv) }}x{{ end }}`,
			`{{ upper(nilv) }}`, `{{ nil | trimSpace }}`, `{{ html(mm) }}`, `{{ lower(mm.missing) }}`, `{{ url(nilv) }}`, `{{ isset() }}`, `{{ trimSpace(iv, iv) }}`,
			`{{ repeat("a", "3") }}`, `{{ replace("a", "b") }}`, `{{ len(iv) }}`, `{{ hasPrefix("a") }}`, `{{ lower(1.5) }}`,
		}).Draw(t, "misuse")
		return c14Case{Kind: "misuse", Tpl: tpl, Expr: tpl}
	}
	c := c14Case{Kind: "chain", Base: c14GenArg(t, 'S', "base")}
	n := rapid.IntRange(1, 4).Draw(t, "nstages")
	nested := rapid.IntRange(0, n).Draw(t, "nestedStages")
	for i := 0; i < n; i++ {
		fn := rapid.IntRange(0, len(c14Callables)-1).Draw(t, "fn")
		if c14Callables[fn].name == "lz" && i != n-1 {
			fn = 0 // what lz returns cannot be piped on
		}
		params := c14Callables[fn].params
		var spos []int
		for j, k := range params {
			if k == 'S' {
				spos = append(spos, j)
			}
		}
		st := c14Stage{Fn: fn, P: spos[rapid.IntRange(0, len(spos)-1).Draw(t, "p")], Space: rapid.Bool().Draw(t, "space")}
		for j, k := range params {
			if j == st.P {
				continue
			}
			if k == 'V' {
				for v := rapid.IntRange(0, 3).Draw(t, "variadic"); v > 0; v-- {
					st.Args = append(st.Args, c14GenArg(t, 'I', "va"))
				}
				continue
			}
			st.Args = append(st.Args, c14GenArg(t, byte(k), "arg"))
		}
		switch {
		case i < nested:
			st.Form = "nested"
		case st.P == 0:
			st.Form = rapid.SampledFrom([]string{"colon", "paren", "slot-paren", "slot-colon"}).Draw(t, "form0")
		default:
			st.Form = rapid.SampledFrom([]string{"slot-paren", "slot-colon"}).Draw(t, "formP")
		}
		c.Stages = append(c.Stages, st)
	}
	if rapid.IntRange(0, 7).Draw(t, "novalBase") == 0 {
		c.Base = c14Arg{Src: rapid.SampledFrom([]string{"nil", "mm.missing", "nilv", `mm["absent"]`}).Draw(t, "noval"), NoVal: true}
		st := &c.Stages[0]
		st.Fn = 5 // jf
		if st.P > 1 {
			st.P = 1
		}
		st.Args = []c14Arg{c14GenArg(t, 'S', "nvS"), c14GenArg(t, 'I', "nvI")}
		if st.Form == "colon" || st.Form == "paren" {
			if st.P != 0 {
				st.Form = "slot-paren"
			} else if rapid.Bool().Draw(t, "nvFewer") {
				st.Args = st.Args[:rapid.IntRange(0, 1).Draw(t, "nvArgs")] // a jet.Func takes any number of arguments
			}
		}
	}
	c.Prefix = nested > 0 && rapid.IntRange(0, 2).Draw(t, "prefix") == 0
	c.Expr = c.expr(false, "")
	c.Plain = c.expr(true, "")
	return c
}

// argument list of stage st with piped standing at position P
func (st c14Stage) argList(piped string) []string {
	var out []string
	k := 0
	total := len(st.Args) + 1
	for j := 0; j < total; j++ {
		if j == st.P {
			out = append(out, piped)
			continue
		}
		out = append(out, st.Args[k].Src)
		k++
	}
	return out
}

func (c c14Case) expr(plain bool, jfName string) string {
	name := func(i int) string {
		n := c14Callables[c.Stages[i].Fn].name
		if n == "jf" && jfName != "" {
			return jfName
		}
		return n
	}
	cur := c.Base.Src
	for i, st := range c.Stages {
		form := st.Form
		if plain {
			form = "nested"
		}
		bar := "|"
		if st.Space {
			bar = " | "
		}
		var extra []string
		for _, a := range st.Args {
			extra = append(extra, a.Src)
		}
		switch form {
		case "nested":
			args := st.argList(cur)
			lastNested := !plain && (i+1 == len(c.Stages) || c.Stages[i+1].Form != "nested")
			if c.Prefix && lastNested && len(args) > 0 {
				cur = name(i) + ": " + strings.Join(args, ", ")
			} else {
				cur = name(i) + "(" + strings.Join(args, ", ") + ")"
			}
		case "colon":
			cur += bar + name(i)
			if len(extra) > 0 {
				cur += ": " + strings.Join(extra, ", ")
			}
		case "paren":
			cur += bar + name(i) + "(" + strings.Join(extra, ", ") + ")"
		case "slot-paren":
			cur += bar + name(i) + "(" + strings.Join(st.argList("_"), ", ") + ")"
		case "slot-colon":
			cur += bar + name(i) + ": " + strings.Join(st.argList("_"), ", ")
		}
	}
	return cur
}

// oracle: apply the chain directly
func (c c14Case) apply() (string, []string) {
	var log []string
	r := c14Rec{&log}
	m := c14Methods{rec: r}
	cur := c.Base.S
	for si, st := range c.Stages {
		var args []interface{}
		k := 0
		for j := 0; j < len(st.Args)+1; j++ {
			if j == st.P {
				args = append(args, cur)
				continue
			}
			if st.Args[k].IsI {
				args = append(args, st.Args[k].I)
			} else {
				args = append(args, st.Args[k].S)
			}
			k++
		}
		switch c14Callables[st.Fn].name {
		case "f1":
			cur = r.note("f1", args...)
		case "f2":
			cur = r.note("f2", args...)
		case "f3":
			cur = r.note("f3", args...)
		case "fv":
			cur = r.note("fv", args...)
		case "g2":
			cur = r.note("g2", args...)
		case "fd":
			cur = r.note("fd", args...)
		case "fd1":
			cur = r.note("fd1", args...)
		case `fns["two"]`, `tools.Funcs["three"]`:
			cur = r.note(c14Callables[st.Fn].name, args...)
		case "pf":
			cur = r.note("pf", args...)
		case "lz":
			r.note("lz", args...)
			cur = "LZ"
		case "obj.Join":
			cur = m.Join(args[0].(string), args[1].(string))
		case "pobj.PJoin":
			cur = m.PJoin(args[0].(string), args[1].(int))
		case "pstack.Note":
			cur = r.note("Note", args...)
		case "obj.Ünï":
			cur = m.Ünï(args[0].(string), args[1].(string))
		case "pobj.Élan":
			cur = m.Élan(args[0].(string), args[1].(int))
		case "jf", "uf", `fns["jf"]`:
			// a jet.Func sees the values unconverted: numeric literals stay float64
			var raw []interface{}
			k := 0
			for j := 0; j < len(st.Args)+1; j++ {
				if j == st.P {
					if si == 0 && c.Base.NoVal {
						raw = append(raw, nil)
					} else {
						raw = append(raw, cur)
					}
					continue
				}
				a := st.Args[k]
				switch {
				case a.IsI && (a.Src == "iv" || a.Src == "id(iv)" || a.Src == "idn(iv)"):
					raw = append(raw, a.I)
				case a.IsI:
					raw = append(raw, float64(a.I))
				default:
					raw = append(raw, a.S)
				}
				k++
			}
			cur = r.note(c14Callables[st.Fn].name, raw...)
		}
	}
	return cur, log
}

func c14Run(tpl string, jf string) (jetrun.Outcome, []string) {
	var log []string
	vars := c14Vars(&log, jf)
	s, _ := jetrun.NewSet(map[string]string{"/t.jet": tpl})
	t, o := jetrun.Get(s, "/t.jet")
	if o.Failed() {
		return o, nil
	}
	o = jetrun.Exec(t, vars, nil)
	return o, log
}

func judgeC14(c c14Case) (v core.Verdict) {
	if c.Kind == "builtin" {
		return judgeC14Builtin(c)
	}
	if c.Kind == "misuse" {
		v.Label("misuse")
		v.NonTrivial = true
		o, _ := c14Run(c.Tpl, "")
		if o.Panicked {
			v.Failf("%s: misuse must be an error, but Execute (or Parse) panicked: %s", c.Tpl, o.PanicVal)
		} else if o.Err == nil {
			v.Failf("%s: wrong argument count / invalid value / misplaced SafeWriter must be an error, but rendered %q", c.Tpl, o.Out)
		}
		return
	}
	want, wantLog := c.apply()
	wantOut := "[" + string(mj.HTMLEscape([]byte(want))) + "]"
	slotPos, convert, hasJF := false, false, false
	for _, st := range c.Stages {
		if st.P >= 1 {
			slotPos = true
		}
		for _, a := range st.Args {
			if a.IsI && a.Src != "iv" {
				convert = true
			}
		}
		if c14Callables[st.Fn].name == "jf" {
			hasJF = true
		}
		v.Label("callable:"+c14Callables[st.Fn].name, "form:"+st.Form, fmt.Sprintf("slot:%d", st.P), fmt.Sprintf("arity:%d", len(st.Args)+1))
	}
	if c.Prefix {
		v.Label("prefix-form")
	}
	if c.Base.NoVal {
		v.Label("value-less-base:"+c.Base.Src, "value-less-base-form:"+c.Stages[0].Form)
		hasJF = false // a reflected function cannot take a value-less argument
	}
	v.NonTrivial = len(c.Stages) >= 2 || slotPos || convert
	for _, expr := range []string{c.expr(false, ""), c.expr(true, "")} {
		tpl := "[{{ " + expr + " }}]"
		o, log := c14Run(tpl, "")
		if o.Failed() {
			v.Failf("%s must render %q but failed: %s", tpl, wantOut, o)
			return
		}
		if o.Out != wantOut {
			v.Failf("%s: rendered %q, the chain evaluates to %q", tpl, o.Out, wantOut)
			return
		}
		if strings.Join(log, ";") != strings.Join(wantLog, ";") {
			v.Failf("%s: call log %v, want every stage exactly once, left to right: %v", tpl, log, wantLog)
			return
		}
	}
	if hasJF {
		// differential: the reflected variadic twin receives what the jet.Func saw
		tpl := "[{{ " + c.expr(false, "rf") + " }}]"
		o, log := c14Run(tpl, "rf")
		if o.Failed() || strings.Join(log, ";") != strings.Join(wantLog, ";") {
			v.Failf("%s: a reflected variadic function must receive the same arguments as the jet.Func: %v vs %v (%s)", tpl, log, wantLog, o)
		}
	}
	return
}

// ---- built-ins ----

func genC14Builtin(t *rapid.T) c14Case {
	s := rapid.SampledFrom([]string{"Hello World", "  padded\t\n", "a,b,,c", "<b>&\"'", "äÖ ß", "", "abcabc", "q=1&r=2 /x"}).Draw(t, "s")
	p := rapid.SampledFrom([]string{"", "He", "a", "abc", ",", "b", "World"}).Draw(t, "p")
	n := rapid.IntRange(0, 4).Draw(t, "n")
	q := strconv.Quote
	esc := func(x string) string { return string(mj.HTMLEscape([]byte(x))) }
	type bi struct{ tpl, want string }
	js := func(v interface{}) string { b, _ := json.Marshal(v); return string(b) }
	list := []bi{
		{"{{ lower(" + q(s) + ") }}", esc(strings.ToLower(s))},
		// a SafeWriter stage that is piped into AND carries arguments: x | w: a  is  w: x, a
		{"{{ \"<x>\" | raw: \"<a>\" }}", "<x><a>"}, {"{{ raw: \"<x>\", \"<a>\" }}", "<x><a>"}, {"{{ \"<x>\" | unsafe(\"<a>\", \"b\") }}", "<x><a>b"},
		{"{{ " + q(s) + " | safeHtml: " + q(p) + " }}", esc(s) + esc(p)}, {"{{ " + q(s) + " | raw(" + q(p) + ") }}", s + p},
		// a method with a pointer receiver that tolerates nil, called on a nil pointer (Go calls it, so does the engine)
		{"{{ nilobj.NilSafe(\"a\") }}", "nil-receiver:a"}, {"{{ \"a\" | nilobj.NilSafe }}", "nil-receiver:a"}, {"{{ nilobj.NilSafe: \"b\" }}", "nil-receiver:b"},
		// arguments that are not strings but convert to the parameter type
		{"{{ pf64(big, bigneg) }}|{{ rf64(big, bigneg) }}", "pf64(9007199254740993,-4611686018427387907)|rf64(9007199254740993,-4611686018427387907)"},
		{"{{ big | pf64: iv }}|{{ bigneg | pf64(big, _) }}", "pf64(9007199254740993,7)|pf64(9007199254740993,-4611686018427387907)"},
		{"{{ tee(sink, bv) }}[{{ sinkText() }}]", "[  BY TES  ]"}, {"{{ tee: sink, bv }}[{{ sinkText() }}]", "[  BY TES  ]"}, {"{{ sink | tee: bv }}[{{ sinkText() }}]", "[  BY TES  ]"}, {"{{ bv | tee(sink, _) }}[{{ sinkText() }}]", "[  BY TES  ]"},
		{"{{ fs1(strg) }}|{{ strg | fs1 }}", "fs1(string:stringer)|fs1(string:stringer)"},
		{"{{ len(ih.Sorted) }}|{{ ih.Counts | len }}|{{ len: ih.Empty }}", "2|1|0"},
		{"{{ trimSpace(bv) }}", "By Tes"}, {"{{ bv | upper }}", "  BY TES  "}, {"{{ lower: bv }}", "  by tes  "}, {"{{ hasPrefix(bv, \"  By\") }}", "true"},
		{"{{ json(" + q(s) + ") | upper }}", esc(strings.ToUpper(js(s)))},
		{"{{ " + q(s) + " | upper }}", esc(strings.ToUpper(s))},
		{"{{ hasPrefix(" + q(s) + ", " + q(p) + ") }}", fmt.Sprint(strings.HasPrefix(s, p))},
		{"{{ " + q(s) + " | hasSuffix: " + q(p) + " }}", fmt.Sprint(strings.HasSuffix(s, p))},
		{"{{ repeat(" + q(p) + ", " + fmt.Sprint(n) + ") }}", esc(strings.Repeat(p, n))},
		{"{{ " + fmt.Sprint(n) + " | repeat(" + q(p) + ", _) }}", esc(strings.Repeat(p, n))},
		{"{{ replace(" + q(s) + ", " + q(p) + ", \"_\", " + fmt.Sprint(n-1) + ") }}", esc(strings.Replace(s, p, "_", n-1))},
		{"{{ split(" + q(s) + ", " + q(p) + ") }}", esc(fmt.Sprint(strings.Split(s, p)))},
		{"{{ len(split(" + q(s) + ", " + q(p) + ")) }}", fmt.Sprint(len(strings.Split(s, p)))},
		{"{{ trimSpace(" + q(s) + ") }}", esc(strings.TrimSpace(s))},
		{"{{ html(" + q(s) + ") }}", esc(html.EscapeString(s))},
		{"{{ " + q(s) + " | url }}", esc(url.QueryEscape(s))},
		{"{{ json(" + q(s) + ") }}", esc(js(s))},
		{"{{ json(slice(" + q(s) + ", " + fmt.Sprint(n) + ")) | raw }}", js([]interface{}{s, float64(n)})},
		{"{{ writeJson(" + q(s) + ") }}", js(s) + "\n"},
		{"{{ len(" + q(s) + ") }}", fmt.Sprint(len(s))},
		{"{{ len(slice(1, 2, " + q(s) + ")) }}", "3"},
		{"{{ len(map(\"a\", 1, \"b\", " + q(s) + ")) }}", "2"},
		{"{{ map(\"a\", 1, \"b\", " + q(s) + ").b }}", esc(s)},
		{"{{ map(\"a\", " + fmt.Sprint(n) + ")[\"a\"] }}", fmt.Sprint(n)},
		{"{{ slice(" + q(p) + ", " + q(s) + ")[1] }}", esc(s)},
		{"{{ array(" + q(p) + ", " + q(s) + ")[0] }}", esc(p)},
		{"{{ range i, v := ints(" + fmt.Sprint(n) + ", " + fmt.Sprint(n+3) + ") }}{{ i }}:{{ v }};{{ end }}", fmt.Sprintf("0:%d;1:%d;2:%d;", n, n+1, n+2)},
		{"{{ " + q(s) + " | upper | lower | len }}", fmt.Sprint(len(strings.ToLower(strings.ToUpper(s))))},
		// arguments of built-ins are evaluated once each, left to right (tick counts its calls), and a key of a
		// defined string type is a key like any other
		{"{{ map(tick(), 1) }}", "map[k1:1]"}, {"{{ len(map(tick(), tick())) }}{{ tick() }}", "1k3"}, {"{{ slice(tick(), tick())[1] }}{{ tick() }}", "k2k3"},
		{"{{ map(kname, " + fmt.Sprint(n) + ").named }}", fmt.Sprint(n)}, {"{{ upper(tick()) }}{{ tick() | lower }}", "K1k2"},
		{"{{ upper(id(" + q(s) + ")) }}", esc(strings.ToUpper(s))}, {"{{ id(" + q(s) + ") | lower }}", esc(strings.ToLower(s))}, {"{{ repeat(id(" + q(p) + "), id(iv)) | len }}", fmt.Sprint(7 * len(p))},
	}
	b := list[rapid.IntRange(0, len(list)-1).Draw(t, "builtin")]
	return c14Case{Kind: "builtin", Tpl: b.tpl, Want: b.want, Expr: b.tpl}
}

func judgeC14Builtin(c c14Case) (v core.Verdict) {
	v.NonTrivial = true
	for _, b := range []string{"lower", "upper", "hasPrefix", "hasSuffix", "repeat", "replace", "split", "trimSpace", "html", "url", "writeJson", "json", "len", "ints", "map", "slice", "array"} {
		if strings.Contains(c.Tpl, b+"(") || strings.Contains(c.Tpl, "| "+b) {
			v.Label("builtin:" + b)
		}
	}
	o, _ := c14Run(c.Tpl, "")
	if o.Failed() {
		v.Failf("%s must render %q but failed: %s", c.Tpl, c.Want, o)
		return
	}
	if o.Out != c.Want {
		v.Failf("%s: rendered %q, the documented Go function gives %q", c.Tpl, o.Out, c.Want)
	}
	return
}

func TestC14(t *testing.T) {
	core.Run(t, "C14",
		"abstract call chains (base value, 1-4 stages over reflected Go functions of arity 1-3, a variadic one, one needing int conversion, arguments handed through a function declared to return interface{}, value and pointer methods (two with non-ASCII names) and a jet.Func; piped value at any string position; extra arguments literal or variable, numeric literals converted to int, variadic tails of 0-3) printed in every surface form (nested plain calls, prefix colon, x | f, x | f: a, x | f(a), slots x | f(a, _) and x | f: a, _), all forms compared with the directly applied chain: rendered bytes and a call log showing each stage once, left to right; jet.Func vs reflected variadic twin receive the same arguments; misuse shapes that must be errors incl. nil functions, arguments that only look convertible, placeholders without a piped value for jet.Funcs, variadic tails of non-empty interface types handed values that do not implement them; 24 built-in templates over generated inputs compared with the Go function the docs name; also: functions taken out of a map or a struct's map as call targets (fns[\"two\"], tools.Funcs[\"three\"], a jet.Func in a map) in every call form; integers beyond 2^53 read through Arguments.ParseInto; a placeholder without a pipe where the call is part of an expression / assignment / condition; round 10: results of a named empty interface type as arguments; a plain func(io.Writer, []byte) that is not a SafeWriter; a parameter of an interface type with methods (right and wrong arguments); round 11: len of collections in slots of interface types with methods; a surplus '_' in last position with nothing piped in; non-trivial = >=2 stages, a slot at position >=1, or a numeric conversion",
		genC14, judgeC14)
}

func TestC14Replay(t *testing.T) { core.Replay(t, "C14", judgeC14) }
