package checks

// C01 — every value an action renders is escaped exactly once by the Set's
// escaper; only a SafeWriter in last position bypasses it; literal text is
// never escaped.
//
// Generator: a random nesting path (if / range / block / yield content /
// default content / include / extends / try / catch / exec) with render sites
// at the bottom, values rich in HTML-special bytes from every kind of source.
// Oracle: the MiniJet reference interpreter (exact byte equality).

import (
	"fmt"
	"strings"
	"testing"

	"jetverif/core"
	"jetverif/mj"

	"pgregory.net/rapid"
)

type c01Case struct {
	Prog  *mj.Program `json:"prog"`
	Path  []string    `json:"path"`  // nesting kinds, outermost first
	Sites []string    `json:"sites"` // description of render sites
	// Dump != "": the template is one built-in action that renders a description of variables (dump("dv"),
	// dump(), dump(1)); such a value is a rendered value like any other. Metamorphic oracle: the output under
	// the Set's escaper is that escaper applied to the output of the same template on a Set without escaper.
	Dump string `json:"dump,omitempty"`
}

var c01Atoms = []string{"<", ">", "&", "'", "\"", "<b>", "&amp;", "&lt;", "a", "b", "x", " ", "é", "日", "\x00", "</script>", "&#34;", "1<2", "x&y",
	// the beginning of a multi-byte character without its end (a string cut at a byte offset)
	"\xc3", "\xe6\x97", "\xf0\x9f"}

func genSpecialString(t *rapid.T, label string) string {
	n := rapid.IntRange(0, 6).Draw(t, label+"N")
	var b strings.Builder
	for i := 0; i < n; i++ {
		b.WriteString(c01Atoms[rapid.IntRange(0, len(c01Atoms)-1).Draw(t, label)])
	}
	return b.String()
}

type c01Gen struct {
	t     *rapid.T
	p     *mj.Program
	nfile int
	nvar  int
	sites []string
	// names in scope that hold a value recipe's printed text (for loop vars / params)
	special   bool
	plainOnly bool // no values that only make sense printed directly (Renderer)
}

func (g *c01Gen) n(lo, hi int, l string) int { return rapid.IntRange(lo, hi).Draw(g.t, l) }

func (g *c01Gen) valueRecipe() mj.Recipe {
	switch g.n(0, 19, "valkind") {
	case 19:
		// a multi-byte character that an escaper has something to say about (U+2028 for safeJs), with its bytes on
		// both sides of a 4096-byte piece boundary
		return mj.Recipe{T: "straddle", I: int64(4096*g.n(1, 2, "straddleChunks") - g.n(0, 3, "straddleBefore")), S: []string{"\u2028x<", "\u2029<", "é<b>", "\u00a0&"}[g.n(0, 3, "straddleRune")]}
	case 17: // values without anything behind them print as "<nil>": special bytes that no string in the data holds
		return mj.Recipe{T: "nil*user"}
	case 18:
		return mj.Recipe{T: "nilfunc"}
	case 16:
		if g.plainOnly {
			return mj.RStr(genSpecialString(g.t, "sval"))
		}
		if g.n(0, 3, "unexportedField") == 0 {
			// a reflect.Value taken from an unexported struct field and put into the VarMap as it is (it cannot be
			// turned into an interface{}, but it is a string like any other for the printer and the escaper)
			return mj.Recipe{T: "unexported-string", S: genSpecialString(g.t, "unexp")}
		}
		if g.n(0, 1, "rendChunked") == 0 {
			// a Renderer that hands its text over in pieces, which may end inside a character, with or without markup
			// of its own (written to Runtime.Writer) after each piece
			r := mj.Recipe{T: "rend-chunks", I: -1, B: g.n(0, 1, "rendRaw") == 0}
			for k := g.n(1, 3, "rendPieces"); k > 0; k-- {
				r.Ss = append(r.Ss, genSpecialString(g.t, "rendPiece"))
			}
			return r
		}
		return mj.Recipe{T: "renderer-write", S: genSpecialString(g.t, "rend")}
	case 14:
		return mj.Recipe{T: "level", I: int64(g.n(0, 9, "level"))}
	case 15:
		return mj.Recipe{T: "code", I: int64(g.n(0, 9, "code"))}
	case 0, 1, 2, 3, 4:
		return mj.RStr(genSpecialString(g.t, "sval"))
	case 5:
		return mj.RInt(g.n(-5, 1000, "ival"))
	case 6:
		return mj.RFloat([]float64{0.5, 1.5, -2.25, 3, 1e21}[g.n(0, 4, "fval")])
	case 7:
		return mj.RBool(g.n(0, 1, "bval") == 1)
	case 8:
		return mj.Recipe{T: "bytes", S: genSpecialString(g.t, "bytes")}
	case 9:
		return mj.Recipe{T: "stringer", S: genSpecialString(g.t, "strg")}
	case 10:
		return mj.Recipe{T: "error", S: genSpecialString(g.t, "err")}
	case 11:
		return mj.RStrs(genSpecialString(g.t, "sl0"), genSpecialString(g.t, "sl1"))
	case 12:
		return mj.Recipe{T: "ptr", Elems: []mj.Recipe{mj.RStr(genSpecialString(g.t, "pstr"))}}
	default:
		// long strings with specials on and around the printer's 4096-byte chunk boundary
		return mj.Recipe{T: "longstring", I: int64(4096*g.n(1, 2, "chunks") + g.n(-3, 3, "around")), S: []string{"<", "a<", "&x", "ab\"", "é<", "x"}[g.n(0, 5, "pattern")]}
	}
}

// valueExpr creates a render-site value from a random source and returns the
// expression that reads it. loopVar / param are names usable when non-empty.
func (g *c01Gen) valueExpr(scopeNames []string) (*mj.Expr, mj.Recipe, string) {
	r := g.valueRecipe()
	g.nvar++
	name := fmt.Sprintf("v%d", g.nvar)
	if len(scopeNames) > 0 && g.n(0, 2, "useScoped") == 0 {
		nm := scopeNames[g.n(0, len(scopeNames)-1, "scoped")]
		return mj.Var(nm), mj.Recipe{T: "scoped"}, "scoped"
	}
	if r.T == "unexported-string" {
		g.p.Vars[name] = r
		return mj.Var(name), r, "var"
	}
	switch g.n(0, 4, "source") {
	case 0:
		if r.T == "string" {
			return mj.Str(r.S), r, "literal"
		}
		fallthrough
	case 1:
		g.p.Vars[name] = r
		return mj.Var(name), r, "var"
	case 2:
		if g.p.Globals == nil {
			g.p.Globals = map[string]mj.Recipe{}
		}
		g.p.Globals["g"+name] = r
		return mj.Var("g" + name), r, "global"
	default:
		// context field: data is a map[string]any
		d := g.p.Data
		d.Keys = append(d.Keys, name)
		d.Elems = append(d.Elems, r)
		return mj.Field(name), r, "data"
	}
}

func (g *c01Gen) renderSite(scopeNames []string) *mj.Node {
	if g.n(0, 11, "stringerSlot") == 0 {
		// a value in a slot of type fmt.Stringer / error whose dynamic type is a Renderer as well
		g.nvar++
		name := fmt.Sprintf("sh%d", g.nvar)
		g.p.Vars[name] = mj.Recipe{T: "strholder", S: genSpecialString(g.t, "shs")}
		e := []*mj.Expr{mj.Chain(mj.Var(name), "Label"), mj.Chain(mj.Var(name), "Err"), {K: "index", A: mj.Chain(mj.Var(name), "List"), B2: mj.Num(float64(g.n(0, 1, "shIdx")))}}[g.n(0, 2, "shSlot")]
		g.sites = append(g.sites, "var:strholder:")
		return mj.Print(e)
	}
	e, r, src := g.valueExpr(scopeNames)
	stage := []string{"", "", "", "upper", "html", "raw", "unsafe", "safeHtml", "safeJs", "swCustom", "raw-prefix", "upper|raw", "lower|safeHtml"}[g.n(0, 12, "pipeline")]
	isString := r.T == "string" || r.T == "longstring" || r.T == "straddle" || e.K == "str" || (r.T == "scoped" && len(scopeNames) == 1 && strings.HasPrefix(scopeNames[0], "lv"))
	if !isString && (stage == "upper" || stage == "html" || stage == "upper|raw" || stage == "lower|safeHtml") {
		stage = ""
	}
	if r.T == "renderer-write" || r.T == "rend-chunks" || r.T == "unexported-string" {
		stage = "" // rendered by its own method; not a value a pipeline can transform
	}
	g.sites = append(g.sites, src+":"+r.T+":"+stage)
	switch stage {
	case "":
	case "raw-prefix":
		c := mj.Call("raw", e)
		c.Prefix = true
		e = c
	case "upper|raw":
		e = mj.Pipe(mj.Pipe(e, "upper"), "raw")
	case "lower|safeHtml":
		e = mj.Pipe(mj.Pipe(e, "lower"), "safeHtml")
	default:
		e = mj.Pipe(e, stage)
	}
	return mj.Print(e)
}

func (g *c01Gen) literalText() *mj.Node {
	return mj.Text([]string{"<p>", "&amp; ", "\"q\" ", "'s' ", "a<b>c", " ", "\n", "<!-- c -->", "é"}[g.n(0, 8, "littext")])
}

func (g *c01Gen) leaf(scopeNames []string) []*mj.Node {
	var out []*mj.Node
	for k := g.n(1, 3, "nsites"); k > 0; k-- {
		if g.n(0, 1, "lit") == 0 {
			out = append(out, g.literalText())
		}
		switch g.n(0, 8, "sitekind") {
		case 8: // Go code that writes through the Runtime it is handed: rendered values too, piece by piece
			call := mj.Call("rtWrite")
			for k := g.n(1, 2, "rtWriteArgs"); k > 0; k-- {
				call.Args = append(call.Args, mj.Str(genSpecialString(g.t, "rtw")))
			}
			g.sites = append(g.sites, "func:rtWrite:")
			out = append(out, mj.Print(call))
		case 0: // loop variable as the source
			g.nvar++
			list, v := fmt.Sprintf("list%d", g.nvar), fmt.Sprintf("lv%d", g.nvar)
			g.p.Vars[list] = mj.RStrs(genSpecialString(g.t, "l0"), genSpecialString(g.t, "l1"))
			out = append(out, &mj.Node{K: "range", Names: []string{"_", v}, Decl: true, E: mj.Var(list), Body: []*mj.Node{g.renderSite([]string{v}), mj.Text("|")}})
		case 1: // block parameter (default or yielded argument) as the source
			g.nvar++
			name, pn := fmt.Sprintf("pb%d", g.nvar), fmt.Sprintf("pv%d", g.nvar)
			def := &mj.Node{K: "block", Name: name, Params: []mj.Param{{Name: pn, E: mj.Str(genSpecialString(g.t, "pdef"))}}, Body: []*mj.Node{mj.Text("(:"), g.renderSite([]string{pn}), mj.Text(":)")}}
			out = append(out, def)
			if g.n(0, 1, "alsoYield") == 0 {
				g.plainOnly = true // the block may send its parameter through a pipeline
				arg, _, _ := g.valueExpr(nil)
				g.plainOnly = false
				out = append(out, &mj.Node{K: "yield", Name: name, Params: []mj.Param{{Name: pn, E: arg}}})
			}
		default:
			out = append(out, g.renderSite(scopeNames))
		}
	}
	if g.n(0, 1, "littail") == 0 {
		out = append(out, g.literalText())
	}
	return out
}

func (g *c01Gen) newFile(body []*mj.Node) string {
	g.nfile++
	path := fmt.Sprintf("/f%d.jet", g.nfile)
	g.p.Files = append(g.p.Files, &mj.File{Path: path, Body: body})
	return path
}

// wrap nests body inside one more construct.
func (g *c01Gen) wrap(kind string, body []*mj.Node) []*mj.Node {
	pre, post := g.literalText(), g.literalText()
	var mid *mj.Node
	switch kind {
	case "if":
		mid = mj.If(mj.Bool(true), body, nil)
	case "else":
		mid = mj.If(mj.Bool(false), []*mj.Node{mj.Text("NOT")}, body)
	case "range":
		// two-variable form: the context stays the data map
		g.nvar++
		mid = &mj.Node{K: "range", Names: []string{fmt.Sprintf("i%d", g.nvar), fmt.Sprintf("e%d", g.nvar)}, Decl: true, E: mj.Call("slice", mj.Num(1), mj.Num(2)), Body: body}
	case "block":
		g.nvar++
		mid = &mj.Node{K: "block", Name: fmt.Sprintf("blk%d", g.nvar), Body: body}
	case "yield-content":
		g.nvar++
		name := fmt.Sprintf("wrap%d", g.nvar)
		lib := g.newFile([]*mj.Node{{K: "block", Name: name, Body: []*mj.Node{mj.Text("["), {K: "ycontent"}, mj.Text("]")}}})
		g.p.Files[0].Imports = append(g.p.Files[0].Imports, lib)
		mid = &mj.Node{K: "yield", Name: name, HasCont: true, Content: body}
	case "default-content":
		g.nvar++
		mid = &mj.Node{K: "block", Name: fmt.Sprintf("dflt%d", g.nvar), Body: []*mj.Node{mj.Text("("), {K: "ycontent"}, mj.Text(")")}, HasCont: true, Content: body}
	case "include":
		path := g.newFile(body)
		mid = &mj.Node{K: "include", E: mj.Str(path)}
	case "try":
		mid = &mj.Node{K: "try", Body: body}
	case "catch":
		// the failing action may be a SafeWriter whose argument fails: nothing of it may stick
		src := []string{"noSuchVariable", "raw: noSuchVariable", `safeHtml: "<a>", noSuchVariable`, `unsafe: "<b>" + noSuchVariable`, `exec("/inc/execfail.jet")`, `includeIfExists("/inc/execfail.jet")`}[g.n(0, 5, "catchfail")]
		failFiles(g.p)
		mid = &mj.Node{K: "try", Body: []*mj.Node{mj.Text("LOST"), {K: "fail", Src: src, Class: "unknown-identifier"}}, HasCatch: true, Catch: body}
	case "exec":
		// the executed file renders values too, but none of it may reach the output
		path := g.newFile(body)
		mid = mj.Print(mj.Call("exec", mj.Str(path)))
	}
	return []*mj.Node{pre, mid, post}
}

var c01Kinds = []string{"if", "else", "range", "block", "yield-content", "default-content", "include", "try", "catch", "exec"}

func genC01(t *rapid.T) c01Case {
	if rapid.IntRange(0, 19).Draw(t, "dumpKind") == 0 {
		p := &mj.Program{Entry: "/main.jet", Vars: map[string]mj.Recipe{"dv": mj.RStr(genSpecialString(t, "dumpval") + "<'\">"), "dw": mj.RStr(genSpecialString(t, "dumpval2"))}}
		p.Escaper = []string{"", "", "custom"}[rapid.IntRange(0, 2).Draw(t, "dumpEscaper")]
		d := mj.RStr("ctx<&>")
		p.Data = &d // dump() describes the context too (and does not accept an execution without one)
		action := rapid.SampledFrom([]string{`dump("dv")`, `dump("dv", "dw")`, `dump()`, `dump(1)`}).Draw(t, "dumpAction")
		body := []*mj.Node{mj.Text("<pre>"), {K: "fail", Src: action, Class: "none"}, mj.Text("</pre>")}
		switch rapid.IntRange(0, 3).Draw(t, "dumpNest") {
		case 1:
			body = []*mj.Node{mj.If(mj.Bool(true), body, nil)}
		case 2:
			body = []*mj.Node{{K: "range", E: mj.Call("slice", mj.Str("once")), Body: body}}
		case 3:
			body = []*mj.Node{{K: "try", Body: body}}
		}
		p.Files = []*mj.File{{Path: "/main.jet", Body: body}}
		return c01Case{Prog: p, Dump: action}
	}
	g := &c01Gen{t: t, p: &mj.Program{Entry: "/main.jet", Vars: map[string]mj.Recipe{}, Data: &mj.Recipe{T: "map[string]any"}}}
	main := &mj.File{Path: "/main.jet"}
	g.p.Files = []*mj.File{main}
	g.p.Escaper = []string{"", "", "", "nil", "custom"}[g.n(0, 4, "escaper")]
	depth := g.n(0, 5, "depth")
	var path []string
	body := g.leaf(nil)
	for i := 0; i < depth; i++ {
		k := c01Kinds[g.n(0, len(c01Kinds)-1, "nest")]
		path = append([]string{k}, path...)
		body = g.wrap(k, body)
		if g.n(0, 2, "sibling") == 0 {
			body = append(body, g.leaf(nil)...)
		}
	}
	if g.n(0, 3, "extends") == 0 {
		// main extends a layout and overrides its block
		path = append([]string{"extends"}, path...)
		layout := &mj.File{Path: "/layout.jet", Body: []*mj.Node{mj.Text("<html>"), {K: "block", Name: "main", Body: []*mj.Node{mj.Text("DEFAULT")}}, mj.Text("</html>")}}
		g.p.Files = append(g.p.Files, layout)
		main.Extends = "/layout.jet"
		main.Body = []*mj.Node{mj.Text("discarded <text>"), {K: "block", Name: "main", Body: body}}
		if g.n(0, 2, "foreignLayout") == 0 {
			// the layout sits in a Cache object shared with a Set that escapes differently and got there first
			g.p.ForeignLayout = []string{"html", "nil", "custom"}[g.n(0, 2, "foreignEscaper")]
		}
	} else {
		main.Body = body
	}
	if g.n(0, 4, "shadowedWriter") == 0 {
		// a user-supplied SafeWriter registered under the name of a built-in one: names resolve variables first,
		// then globals, then built-ins, so it is the user's escaping that applies
		name := []string{"raw", "unsafe", "safeHtml", "safeJs"}[g.n(0, 3, "shadowedName")]
		if g.n(0, 1, "shadowAsGlobal") == 0 {
			if g.p.Globals == nil {
				g.p.Globals = map[string]mj.Recipe{}
			}
			g.p.Globals[name] = mj.Recipe{T: "swcustom"}
		} else {
			g.p.Vars[name] = mj.Recipe{T: "swcustom"}
		}
	}
	if g.n(0, 3, "brokenFirst") == 0 {
		g.p.BrokenFirst = g.n(1, 120, "brokenAfter")
	}
	return c01Case{Prog: g.p, Path: path, Sites: g.sites}
}

func judgeC01(c c01Case) (v core.Verdict) {
	if c.Dump != "" {
		v.Label("dump-builtin:"+c.Dump, "escaper:"+c.Prog.Escaper)
		v.NonTrivial = true
		got, _, src := mj.EngineRun(c.Prog, nil)
		plain := *c.Prog
		plain.Escaper = "nil"
		ref, _, _ := mj.EngineRun(&plain, nil)
		if got.Failed() || ref.Failed() {
			v.Failf("templates %q: %s failed: %s / without escaper: %s", src, c.Dump, got, ref)
			return
		}
		esc := mj.HTMLEscape
		if c.Prog.Escaper == "custom" {
			esc = mj.CustomEscape
		}
		i, j := strings.Index(ref.Out, "<pre>"), strings.LastIndex(ref.Out, "</pre>")
		if i < 0 || j < i {
			v.Failf("templates %q: unexpected output without escaper: %q", src, ref.Out)
			return
		}
		want := ref.Out[:i+5] + string(esc([]byte(ref.Out[i+5:j]))) + ref.Out[j:]
		if got.Out != want {
			v.Failf("templates %q (escaper %q): {{ %s }} renders a value; it must pass through the Set's escaper exactly once:\n got  %q\n want %q (the escaper applied to what a Set without escaper renders)", src, c.Prog.Escaper, c.Dump, got.Out, want)
		}
		return
	}
	want, discard := mj.ModelRun(c.Prog, nil)
	if discard != "" {
		v.Discard = "model:" + discard
		return
	}
	got, _, src := mj.EngineRun(c.Prog, nil)
	special := false
	for _, s := range c.Sites {
		v.Label("site:" + s)
		if s == "func:rtWrite:" {
			special = true
		}
	}
	for _, k := range c.Path {
		v.Label("nest:" + k)
	}
	v.Label("escaper:" + c.Prog.Escaper)
	for _, nm := range []string{"raw", "unsafe", "safeHtml", "safeJs"} {
		if c.Prog.Vars[nm].T == "swcustom" || c.Prog.Globals[nm].T == "swcustom" {
			v.Label("user-writer-registered-as:" + nm)
		}
	}
	if c.Prog.ForeignLayout != "" && c.Prog.ForeignLayout != map[string]string{"": "html"}[c.Prog.Escaper]+c.Prog.Escaper {
		v.Label("layout-parsed-by-a-set-with-another-escaper")
	}
	if c.Prog.BrokenFirst > 0 {
		v.Label("after-an-execution-into-a-broken-destination")
	}
	for _, r := range c.Prog.Vars {
		if strings.ContainsAny(r.S, "<>&'\"") || r.T == "level" || r.T == "code" || r.T == "renderer-write" || r.T == "rend-chunks" || r.T == "unexported-string" || r.T == "nil*user" || r.T == "nilfunc" || r.T == "strholder" {
			special = true
		}
		if r.T == "longstring" || r.T == "straddle" {
			v.Label("crosses-4096")
		}
		if r.T == "straddle" {
			special = true
		}
	}
	for _, r := range c.Prog.Data.Elems {
		if strings.ContainsAny(r.S, "<>&'\"") {
			special = true
		}
	}
	for _, r := range c.Prog.Globals {
		if strings.ContainsAny(r.S, "<>&'\"") {
			special = true
		}
	}
	v.NonTrivial = special && len(c.Path) >= 1
	if want.Err != nil {
		v.Discard = "model-error:" + want.Err.Class
		return
	}
	if got.Failed() {
		v.Failf("templates %q (escaper %q): engine failed (%s) but the model renders %q", src, c.Prog.Escaper, got, want.Out)
		return
	}
	if got.Out != want.Out {
		v.Failf("templates %q (escaper %q, vars %v, globals %v, data %v):\n got  %q\n want %q", src, c.Prog.Escaper, c.Prog.Vars, c.Prog.Globals, c.Prog.Data, clipLong(got.Out), clipLong(want.Out))
	}
	return
}

func clipLong(s string) string {
	if len(s) > 600 {
		return s[:300] + "…(" + fmt.Sprint(len(s)) + " bytes)…" + s[len(s)-300:]
	}
	return s
}

func TestC01(t *testing.T) {
	core.Run(t, "C01",
		"random nesting path (depth 0-5 of if/else/range/block/yield-with-content/default content/include/try/catch/exec, optionally under an extends layout) with 1-3 render sites per level; values (strings rich in < > & ' \" NUL multi-byte and pre-escaped entities, 4096-boundary long strings, ints, floats, bools, []byte, Stringer, error, slices, pointers, nil pointers and nil funcs (printed as <nil>), strings ending in the beginning of a multi-byte character, characters whose bytes straddle a 4096-byte piece boundary (U+2028 under safeJs), fmt.Stringer / error slots holding values that are Renderers too, a Renderer that writes through Runtime.Write) from literal / Execute variable / global / context sources; pipelines none/upper/html/raw/unsafe/safeHtml/safeJs/custom SafeWriter/prefix raw/chains; escaper default/nil/custom (byte-wise, non-idempotent); 1 case in 20 is a dump() / dump(n) / dump(name) action checked metamorphically against a Set without escaper; one extends case in three with the layout sitting in a Cache shared with a Set of another escaper that loaded it first; one case in four after an Execute of the same template into a destination that fails after 1-120 bytes; also: values that render themselves in pieces (each through Runtime.Write, pieces may end inside a character, optionally with markup of their own written to Runtime.Writer after every piece) and a Go function that writes through the Runtime it is handed; round 10: a reflect.Value taken from an unexported struct field put into the VarMap as it is; oracle = MiniJet reference interpreter, exact bytes; non-trivial = a value with a special byte and nesting depth >= 1",
		genC01, judgeC01)
}

func TestC01Replay(t *testing.T) { core.Replay(t, "C01", judgeC01) }
