package checks

// C04 — precedence, associativity and typing of expressions.
//
// Generator: typed expression trees over literals and Execute variables of Go
// numeric/string/bool kinds, printed with the minimal parentheses the
// documented ladder requires, optional redundant ones and per-operator spacing
// (both sides or neither). Oracle: an independent typed evaluator.

import (
	"fmt"
	"math"
	"reflect"
	"sort"
	"strconv"
	"strings"
	"testing"

	"jetverif/core"
	"jetverif/jetrun"

	"github.com/CloudyKit/jet/v6"
	"pgregory.net/rapid"
)

type c04Expr struct {
	Op     string   `json:"op"` // num str bool var neg not bin tern probe
	Num    float64  `json:"num,omitempty"`
	Text   string   `json:"text,omitempty"` // literal spelling for num
	Str    string   `json:"str,omitempty"`
	Bool   bool     `json:"bool,omitempty"`
	Var    int      `json:"var,omitempty"`
	Field  bool     `json:"field,omitempty"` // var: read as the field .V<n> of the context instead of the variable v<n>
	Bop    string   `json:"bop,omitempty"`
	Word   bool     `json:"word,omitempty"`
	Tight  bool     `json:"tight,omitempty"`
	Parens bool     `json:"parens,omitempty"`
	ID     int      `json:"id,omitempty"`
	A      *c04Expr `json:"a,omitempty"`
	B      *c04Expr `json:"b,omitempty"`
	C      *c04Expr `json:"c,omitempty"`
}

type c04Var struct {
	Kind string  `json:"kind"` // Go kind name
	I    int64   `json:"i,omitempty"`
	F    float64 `json:"f,omitempty"`
	S    string  `json:"s,omitempty"`
	B    bool    `json:"b,omitempty"`
}

type c04Case struct {
	Expr *c04Expr `json:"expr"`
	Vars []c04Var `json:"vars"`
	Src  string   `json:"src"` // printed form (informational; recomputed by the judge)
	// StructCtx: the context is a pointer to a struct with one field per variable (addressable storage) instead of a map
	StructCtx bool `json:"struct_ctx,omitempty"`
	// Wrapped: the VarMap entries are what reflect hands out for the entries of a map[string]interface{} (values of
	// kind Interface), put into the VarMap as they are
	Wrapped bool `json:"wrapped,omitempty"`
}

// values of basic kinds whose types have a String method: concatenated (and printed) through that method
type c04Rank int
type c04Temp float64
type c04Tag string
type c04Flag bool

// defined types without methods: same kind, same meaning in comparisons
type c04NStr string
type c04NBool bool

func (l c04Rank) String() string { return fmt.Sprintf("L%d", int(l)) }
func (t c04Temp) String() string { return fmt.Sprintf("%.1f deg", float64(t)) }
func (t c04Tag) String() string  { return "#" + string(t) }
func (f c04Flag) String() string {
	if f {
		return "on"
	}
	return "off"
}

func (v c04Var) stringer() (string, bool) {
	switch v.Kind {
	case "level":
		return c04Rank(v.I).String(), true
	case "temp":
		return c04Temp(v.F).String(), true
	case "tag":
		return c04Tag(v.S).String(), true
	case "flag":
		return c04Flag(v.B).String(), true
	}
	return "", false
}

var c04IntKinds = []string{"int", "int8", "int16", "int32", "int64"}
var c04UintKinds = []string{"uint", "uint8", "uint16", "uint32", "uint64"}

type c04Gen struct {
	t      *rapid.T
	vars   []c04Var
	probe  int
	probes bool
}

func (g *c04Gen) n(lo, hi int, l string) int { return rapid.IntRange(lo, hi).Draw(g.t, l) }

func (g *c04Gen) addVar(v c04Var) *c04Expr {
	field := g.n(0, 3, "asContextField") == 0
	for i, w := range g.vars {
		if w == v {
			return &c04Expr{Op: "var", Var: i, Field: field}
		}
	}
	g.vars = append(g.vars, v)
	return &c04Expr{Op: "var", Var: len(g.vars) - 1, Field: field}
}

var c04Ints = []int64{-3, -2, -1, 0, 1, 2, 3, 7, 0, 1, 2}
var c04Floats = []float64{0.5, 1.5, 2.5, -0.5, -1.5}
var c04Strs = []string{"", "a", "ab", "b"}

func (g *c04Gen) numLeaf() *c04Expr {
	switch g.n(0, 9, "numleaf") {
	case 0, 1, 2: // integral literal
		if g.n(0, 7, "charLiteral") == 0 {
			// a character constant is a numeric literal like any other (its code point, a floating-point operand)
			ch := []rune{'a', '0', 'A', '\n', 'é'}[g.n(0, 4, "char")]
			return &c04Expr{Op: "num", Num: float64(ch), Text: strconv.QuoteRune(ch)}
		}
		v := c04Ints[g.n(0, len(c04Ints)-1, "ilit")]
		txt := strconv.FormatInt(v, 10)
		if g.n(0, 5, "dotzero") == 0 {
			txt += ".0"
		}
		return &c04Expr{Op: "num", Num: float64(v), Text: txt}
	case 3: // fractional literal (rarely: an integral literal beyond the int64 range - still a float)
		if g.n(0, 9, "hugeLiteral") == 0 {
			return &c04Expr{Op: "num", Num: 9223372036854775808, Text: []string{"9223372036854775808", "0x8000000000000000"}[g.n(0, 1, "hugeSpelling")]}
		}
		v := c04Floats[g.n(0, len(c04Floats)-1, "flit")]
		return &c04Expr{Op: "num", Num: v, Text: strconv.FormatFloat(v, 'f', -1, 64)}
	case 4, 5, 6:
		k := c04IntKinds[g.n(0, len(c04IntKinds)-1, "ikind")]
		return g.addVar(c04Var{Kind: k, I: c04Ints[g.n(0, len(c04Ints)-1, "ival")]})
	case 7:
		k := c04UintKinds[g.n(0, len(c04UintKinds)-1, "ukind")]
		v := c04Ints[g.n(0, len(c04Ints)-1, "uval")]
		if v < 0 {
			v = -v
		}
		return g.addVar(c04Var{Kind: k, I: v})
	default:
		k := []string{"float64", "float32"}[g.n(0, 1, "fkind")]
		if g.n(0, 1, "fintegral") == 0 {
			return g.addVar(c04Var{Kind: k, F: float64(c04Ints[g.n(0, len(c04Ints)-1, "fival")])})
		}
		return g.addVar(c04Var{Kind: k, F: c04Floats[g.n(0, len(c04Floats)-1, "fval")]})
	}
}

func (g *c04Gen) style(e *c04Expr) *c04Expr {
	e.Tight = g.n(0, 2, "tight") == 0
	e.Parens = g.n(0, 7, "parens") == 0
	return e
}

func (g *c04Gen) maybeProbe(e *c04Expr) *c04Expr {
	if g.probes && g.n(0, 2, "probe") == 0 {
		g.probe++
		return &c04Expr{Op: "probe", ID: g.probe, A: e}
	}
	return e
}

func (g *c04Gen) num(d int) *c04Expr {
	if d > 0 && g.n(0, 13, "twoResults") == 0 {
		// the operand comes out of a Go function with the results (interface{}, error): the value inside is the operand
		return &c04Expr{Op: "two", A: g.num(d - 1)}
	}
	if d <= 0 || g.n(0, 3, "numleafq") == 0 {
		return g.numLeaf()
	}
	switch g.n(0, 11, "numop") {
	case 0:
		a := g.num(d - 1)
		if a.Op == "num" { // a negated literal is a literal
			return a
		}
		if g.n(0, 2, "unaryPlus") == 0 {
			// +x is x, of whatever kind x is (also for the unsigned kinds, beyond MaxInt64 included)
			if g.n(0, 1, "unaryPlusOnUnsigned") == 0 {
				a = g.addVar(c04Var{Kind: []string{"uint8", "uint", "uint64", "uint32"}[g.n(0, 3, "uplusKind")], I: c04Ints[g.n(3, 7, "uplusVal")]})
			}
			return &c04Expr{Op: "pos", A: a}
		}
		return &c04Expr{Op: "neg", A: a}
	case 1:
		return g.style(&c04Expr{Op: "tern", A: g.cond(d - 1), B: g.maybeProbe(g.num(d - 1)), C: g.maybeProbe(g.num(d - 1))})
	default:
		op := []string{"+", "-", "*", "/", "%", "+", "-", "*"}[g.n(0, 7, "arith")]
		return g.style(&c04Expr{Op: "bin", Bop: op, A: g.num(d - 1), B: g.num(d - 1)})
	}
}

func (g *c04Gen) str(d int) *c04Expr {
	if d <= 0 || g.n(0, 2, "strleafq") == 0 {
		s := c04Strs[g.n(0, len(c04Strs)-1, "sval")]
		if g.n(0, 1, "strvar") == 0 {
			return g.addVar(c04Var{Kind: "string", S: s})
		}
		return &c04Expr{Op: "str", Str: s}
	}
	switch g.n(0, 5, "strop") {
	case 0:
		return g.style(&c04Expr{Op: "tern", A: g.cond(d - 1), B: g.maybeProbe(g.str(d - 1)), C: g.maybeProbe(g.str(d - 1))})
	default:
		var r *c04Expr
		switch g.n(0, 4, "concatRight") {
		case 4:
			// a value whose type has a String method: what is appended is what printing it alone renders
			r = g.addVar([]c04Var{{Kind: "level", I: 3}, {Kind: "temp", F: 1.5}, {Kind: "tag", S: "t"}, {Kind: "flag", B: true}, {Kind: "level", I: 0}, {Kind: "flag", B: false}}[g.n(0, 5, "stringerVar")])
			r.Field = false
		case 0:
			r = g.num(d - 1)
		case 1:
			r = g.boolean(d - 1)
		default:
			r = g.str(d - 1)
		}
		return g.style(&c04Expr{Op: "bin", Bop: "+", A: g.str(d - 1), B: r})
	}
}

// cond: any value used for its truthiness.
func (g *c04Gen) cond(d int) *c04Expr {
	switch g.n(0, 5, "condkind") {
	case 0:
		return g.num(d)
	case 1:
		return g.str(d)
	default:
		return g.boolean(d)
	}
}

func (g *c04Gen) boolean(d int) *c04Expr {
	if d <= 0 || g.n(0, 5, "boolleafq") == 0 {
		b := g.n(0, 1, "bval") == 1
		if g.n(0, 1, "boolvar") == 0 {
			return g.addVar(c04Var{Kind: "bool", B: b})
		}
		return &c04Expr{Op: "bool", Bool: b}
	}
	switch g.n(0, 11, "boolop") {
	case 0, 1, 2:
		op := []string{"<", "<=", ">", ">="}[g.n(0, 3, "rel")]
		if g.n(0, 1, "relLeaves") == 0 { // direct comparisons of equal/adjacent operands separate < from <=
			a, b := g.numLeaf(), g.numLeaf()
			switch g.n(0, 15, "nanOperand") { // a NaN compares false with everything, in either position
			case 0:
				a = g.addVar(c04Var{Kind: "nan"})
			case 1:
				b = g.addVar(c04Var{Kind: "nan"})
			case 2, 3: // an unsigned value beyond the int64 range on the right of a floating-point operand
				if g.n(0, 1, "bigLeftLiteral") == 0 {
					v := c04Floats[g.n(0, len(c04Floats)-1, "bigflit")]
					a = &c04Expr{Op: "num", Num: v, Text: strconv.FormatFloat(v, 'f', -1, 64)}
				} else {
					a = g.addVar(c04Var{Kind: []string{"float64", "float32"}[g.n(0, 1, "bigfkind")], F: []float64{0.5, -1.5, 3, 9.3e18, 1e19}[g.n(0, 4, "bigfval")]})
				}
				b = g.addVar(c04Var{Kind: []string{"biguint", "biguint64"}[g.n(0, 1, "bigKind")], I: int64(g.n(0, 3, "bigOffset")) * 4096})
				if g.n(0, 2, "bigUnaryPlus") == 0 {
					b = &c04Expr{Op: "pos", A: b} // +x is x, beyond MaxInt64 too
				}
			}
			return g.style(&c04Expr{Op: "bin", Bop: op, A: a, B: b})
		}
		return g.style(&c04Expr{Op: "bin", Bop: op, A: g.num(d - 1), B: g.num(d - 1)})
	case 3, 4:
		op := []string{"==", "!="}[g.n(0, 1, "eq")]
		switch g.n(0, 5, "eqkind") {
		case 5:
			// the same operand on both sides: equal to itself - unless it is a NaN
			var a *c04Expr
			switch g.n(0, 2, "sameOperand") {
			case 0:
				a = g.addVar(c04Var{Kind: "nan"})
			case 1:
				a = g.addVar(c04Var{Kind: "float64", F: c04Floats[g.n(0, len(c04Floats)-1, "samef")]})
			default:
				a = g.numLeaf()
			}
			b := *a
			return g.style(&c04Expr{Op: "bin", Bop: op, A: a, B: &b})
		case 4:
			// values of defined string / bool types (no methods) against plain ones, in either order
			var a, b *c04Expr
			if g.n(0, 1, "namedKind") == 0 {
				s := c04Strs[g.n(0, len(c04Strs)-1, "nsval")]
				a, b = g.addVar(c04Var{Kind: "nstring", S: s}), g.str(0)
			} else {
				a, b = g.addVar(c04Var{Kind: "nbool", B: g.n(0, 1, "nbval") == 1}), g.boolean(0)
			}
			if g.n(0, 1, "namedSide") == 0 {
				a, b = b, a
			}
			return g.style(&c04Expr{Op: "bin", Bop: op, A: a, B: b})
		case 0:
			return g.style(&c04Expr{Op: "bin", Bop: op, A: g.str(d - 1), B: g.str(d - 1)})
		case 1:
			return g.style(&c04Expr{Op: "bin", Bop: op, A: g.boolean(d - 1), B: g.boolean(d - 1)})
		default:
			return g.style(&c04Expr{Op: "bin", Bop: op, A: g.num(d - 1), B: g.num(d - 1)})
		}
	case 5, 6, 7, 8:
		op := []string{"&&", "||"}[g.n(0, 1, "logic")]
		e := g.style(&c04Expr{Op: "bin", Bop: op, A: g.maybeProbe(g.cond(d - 1)), B: g.maybeProbe(g.cond(d - 1))})
		e.Word = g.n(0, 3, "wordop") == 0
		return e
	case 9:
		e := &c04Expr{Op: "not", A: g.cond(d - 1)}
		e.Word = g.n(0, 3, "wordnot") == 0
		// "!a == b" is "!(a == b)": the operand of a negation reaches as far as a comparison does
		e.Tight = g.n(0, 1, "notOverComparison") == 0
		return e
	default:
		return g.style(&c04Expr{Op: "tern", A: g.cond(d - 1), B: g.maybeProbe(g.boolean(d - 1)), C: g.maybeProbe(g.boolean(d - 1))})
	}
}

func genC04(t *rapid.T) c04Case {
	g := &c04Gen{t: t}
	g.probes = rapid.IntRange(0, 2).Draw(t, "withProbes") == 0
	d := rapid.IntRange(1, 5).Draw(t, "depth")
	var e *c04Expr
	switch rapid.IntRange(0, 3).Draw(t, "top") {
	case 0:
		e = g.str(d)
	case 1:
		e = g.boolean(d)
	default:
		e = g.num(d)
	}
	c := c04Case{Expr: e, Vars: g.vars, StructCtx: rapid.IntRange(0, 2).Draw(t, "structContext") == 0, Wrapped: rapid.IntRange(0, 3).Draw(t, "wrappedVars") == 0}
	c.Src, _ = c04Print(c.Expr)
	return c
}

// ---- printer ----

const (
	lvTern = iota + 1
	lvLogic
	lvEq
	lvRel
	lvAdd
	lvMul
	lvUnary
	lvPrimary
)

func c04Level(e *c04Expr) int {
	if e.Parens {
		return lvPrimary
	}
	switch e.Op {
	case "tern":
		return lvTern
	case "not":
		return lvLogic
	case "neg", "pos":
		return lvUnary
	case "bin":
		switch e.Bop {
		case "&&", "||":
			return lvLogic
		case "==", "!=":
			return lvEq
		case "<", "<=", ">", ">=":
			return lvRel
		case "+", "-":
			return lvAdd
		default:
			return lvMul
		}
	}
	return lvPrimary
}

type c04Shape struct {
	mixedLevels bool // two operators of different levels adjacent without parentheses
	tightAfter  bool // a no-space operator directly after ) ident literal
	field       bool // an operand is a field of the context
	nOps        int
	opPairs     map[string]bool
}

func c04Print(e *c04Expr) (string, c04Shape) {
	sh := c04Shape{opPairs: map[string]bool{}}
	return c04p(e, 0, &sh), sh
}

func opName(e *c04Expr) string {
	switch e.Op {
	case "bin":
		return e.Bop
	case "tern":
		return "?:"
	case "neg":
		return "neg"
	case "pos":
		return "pos"
	case "not":
		return "!"
	}
	return ""
}

// c04p prints e where an expression of level >= min may stand without parentheses.
func c04p(e *c04Expr, min int, sh *c04Shape) string {
	s := c04raw(e, sh)
	if e.Parens || c04LevelNoParens(e) < min {
		return "(" + s + ")"
	}
	return s
}

func c04LevelNoParens(e *c04Expr) int {
	p := e.Parens
	e.Parens = false
	l := c04Level(e)
	e.Parens = p
	return l
}

func (sh *c04Shape) child(parent, child *c04Expr, min int) {
	cl := c04LevelNoParens(child)
	if !child.Parens && cl >= min && cl < lvPrimary && cl != c04LevelNoParens(parent) {
		sh.mixedLevels = true
		sh.opPairs[opName(parent)+" over "+opName(child)] = true
	}
}

func c04raw(e *c04Expr, sh *c04Shape) string {
	switch e.Op {
	case "num":
		return e.Text
	case "str":
		return strconv.Quote(e.Str)
	case "bool":
		return strconv.FormatBool(e.Bool)
	case "var":
		if e.Field {
			sh.field = true
			return fmt.Sprintf(".V%d", e.Var)
		}
		return fmt.Sprintf("v%d", e.Var)
	case "probe":
		return fmt.Sprintf("p(%d, %s)", e.ID, c04p(e.A, 0, sh))
	case "two":
		return "two(" + c04p(e.A, 0, sh) + ")"
	case "neg", "pos":
		sh.nOps++
		sh.child(e, e.A, lvPrimary)
		return map[string]string{"neg": "-", "pos": "+"}[e.Op] + c04p(e.A, lvPrimary, sh)
	case "not":
		sh.nOps++
		op := "!"
		if e.Word {
			op = "not "
		}
		if e.Tight {
			sh.child(e, e.A, lvEq)
			return op + c04p(e.A, lvEq, sh)
		}
		return op + c04p(e.A, lvPrimary, sh)
	case "tern":
		sh.nOps++
		sh.child(e, e.A, lvLogic)
		sh.child(e, e.C, lvTern)
		a, b, c := c04p(e.A, lvLogic, sh), c04p(e.B, lvTern, sh), c04p(e.C, lvTern, sh)
		if e.Tight {
			sh.tightAfter = true
			return a + "?" + b + ":" + c
		}
		return a + " ? " + b + " : " + c
	case "bin":
		sh.nOps++
		l := c04LevelNoParens(e)
		sh.child(e, e.A, l)
		sh.child(e, e.B, l+1)
		a, b := c04p(e.A, l, sh), c04p(e.B, l+1, sh)
		op := e.Bop
		if e.Word && (op == "&&" || op == "||") {
			if op == "&&" {
				return a + " and " + b
			}
			return a + " or " + b
		}
		if e.Tight {
			sh.tightAfter = true
			return a + op + b
		}
		return a + " " + op + " " + b
	}
	panic("bad expr op " + e.Op)
}

// ---- reference evaluator ----

type c04Val struct {
	k byte // 'i' int, 'u' uint, 'f' float, 'x' numeric of open type (integral value), 's', 'b'
	u bool // for 'x': the engine may hold it as an unsigned integer (wrap-around domain applies)
	i int64
	f float64
	s string
	b bool
}

type c04Discard struct{ why string }

func (v c04Val) uns() bool   { return v.k == 'u' || (v.k == 'x' && v.u) }
func (v c04Val) isNum() bool { return v.k == 'i' || v.k == 'u' || v.k == 'f' || v.k == 'x' }
func (v c04Val) fl() float64 {
	if v.k == 'f' {
		return v.f
	}
	return float64(v.i)
}
func (v c04Val) integral() bool { return v.k != 'f' || v.f == math.Trunc(v.f) }
func (v c04Val) truthy() bool {
	switch v.k {
	case 's':
		return v.s != ""
	case 'b':
		return v.b
	case 'f':
		if v.f == 0 && math.Signbit(v.f) {
			panic(c04Discard{"negative-zero-condition"})
		}
		return v.f != 0
	}
	return v.i != 0
}

func (v c04Val) print() string {
	switch v.k {
	case 's':
		return v.s
	case 'b':
		return strconv.FormatBool(v.b)
	case 'f':
		if v.f == 0 && math.Signbit(v.f) {
			panic(c04Discard{"negative-zero"})
		}
		return strconv.FormatFloat(v.f, 'f', -1, 64)
	}
	return strconv.FormatInt(v.i, 10)
}

func (v c04Val) sprint() string { // the form "+" appends to a string
	if v.k == 'f' {
		return fmt.Sprint(v.f)
	}
	return v.print()
}

type c04Eval struct {
	vars    []c04Var
	log     []int
	skipped int // probes in branches the lazy operators must not evaluate
	kinds   map[string]bool
}

func bound(f float64) {
	if math.Abs(f) > 1<<53 || math.IsNaN(f) || math.IsInf(f, 0) {
		panic(c04Discard{"beyond-2^53"})
	}
}

func countProbes(e *c04Expr) int {
	if e == nil {
		return 0
	}
	n := countProbes(e.A) + countProbes(e.B) + countProbes(e.C)
	if e.Op == "probe" {
		n++
	}
	return n
}

func (ev *c04Eval) eval(e *c04Expr) c04Val {
	switch e.Op {
	case "num":
		return c04Val{k: 'f', f: e.Num}
	case "str":
		return c04Val{k: 's', s: e.Str}
	case "bool":
		return c04Val{k: 'b', b: e.Bool}
	case "var":
		v := ev.vars[e.Var]
		if s, ok := v.stringer(); ok {
			return c04Val{k: 's', s: s}
		}
		if v.Kind == "nan" {
			return c04Val{k: 'f', f: math.NaN()}
		}
		if v.Kind == "biguint" || v.Kind == "biguint64" {
			return c04Val{k: 'U', f: float64(uint64(1)<<63 + uint64(v.I))}
		}
		if v.Kind == "nstring" {
			return c04Val{k: 's', s: v.S}
		}
		if v.Kind == "nbool" {
			return c04Val{k: 'b', b: v.B}
		}
		switch {
		case strings.HasPrefix(v.Kind, "int"):
			return c04Val{k: 'i', i: v.I}
		case strings.HasPrefix(v.Kind, "uint"):
			return c04Val{k: 'u', i: v.I}
		case strings.HasPrefix(v.Kind, "float"):
			return c04Val{k: 'f', f: v.F}
		case v.Kind == "string":
			return c04Val{k: 's', s: v.S}
		}
		return c04Val{k: 'b', b: v.B}
	case "probe":
		ev.log = append(ev.log, e.ID)
		return ev.eval(e.A)
	case "pos", "two":
		return ev.eval(e.A)
	case "neg":
		a := ev.eval(e.A)
		switch a.k {
		case 'f':
			return c04Val{k: 'f', f: -a.f}
		case 'u':
			return c04Val{k: 'i', i: -a.i}
		}
		return c04Val{k: a.k, i: -a.i} // negating an unsigned-held 'x' makes it signed
	case "not":
		return c04Val{k: 'b', b: !ev.eval(e.A).truthy()}
	case "tern":
		if ev.eval(e.A).truthy() {
			ev.skipped += countProbes(e.C)
			return ev.eval(e.B)
		}
		ev.skipped += countProbes(e.B)
		return ev.eval(e.C)
	}
	// bin
	switch e.Bop {
	case "&&":
		if !ev.eval(e.A).truthy() {
			ev.skipped += countProbes(e.B)
			return c04Val{k: 'b', b: false}
		}
		return c04Val{k: 'b', b: ev.eval(e.B).truthy()}
	case "||":
		if ev.eval(e.A).truthy() {
			ev.skipped += countProbes(e.B)
			return c04Val{k: 'b', b: true}
		}
		return c04Val{k: 'b', b: ev.eval(e.B).truthy()}
	}
	a, b := ev.eval(e.A), ev.eval(e.B)
	ev.kinds[string(a.k)+e.Bop+string(b.k)] = true
	if a.k == 'U' || b.k == 'U' {
		// unsigned values beyond the int64 range: only "floating-point operand on the left" is stated (the right
		// operand is converted to the left one's kind, and float64 holds it)
		if a.k != 'f' || (e.Bop != "<" && e.Bop != "<=" && e.Bop != ">" && e.Bop != ">=") {
			panic(c04Discard{"big-unsigned-operand"})
		}
		b = c04Val{k: 'f', f: b.f}
	}
	switch e.Bop {
	case "==", "!=":
		var eq bool
		switch {
		case a.k == 's' && b.k == 's':
			eq = a.s == b.s
		case a.k == 'b' && b.k == 'b':
			eq = a.b == b.b
		case a.isNum() && b.isNum():
			if (a.k != 'f' && !b.integral()) || (b.k != 'f' && !a.integral()) {
				panic(c04Discard{"int==fractional"})
			}
			if (a.uns() && b.fl() < 0) || (b.uns() && a.fl() < 0) {
				panic(c04Discard{"uint-vs-negative"})
			}
			eq = a.fl() == b.fl()
		default:
			panic(c04Discard{"eq-across-kinds"})
		}
		if e.Bop == "!=" {
			eq = !eq
		}
		return c04Val{k: 'b', b: eq}
	case "<", "<=", ">", ">=":
		if a.uns() && b.fl() < 0 || b.uns() && a.fl() < 0 {
			panic(c04Discard{"uint-vs-negative"})
		}
		x, y := a.fl(), b.fl()
		var r bool
		switch e.Bop {
		case "<":
			r = x < y
		case "<=":
			r = x <= y
		case ">":
			r = x > y
		default:
			r = x >= y
		}
		return c04Val{k: 'b', b: r}
	}
	if a.k == 's' { // concatenation
		if e.Bop != "+" {
			panic(c04Discard{"string-arith"})
		}
		return c04Val{k: 's', s: a.s + b.sprint()}
	}
	// arithmetic on numbers
	isF := a.k == 'f' || b.k == 'f'
	isX := a.k == 'x' || b.k == 'x'
	intKind := func(i int64) c04Val {
		bound(float64(i))
		if a.uns() && (i < 0 || b.fl() < 0) {
			panic(c04Discard{"uint-wrap"})
		}
		if isX {
			return c04Val{k: 'x', i: i, u: a.uns()}
		}
		return c04Val{k: a.k, i: i}
	}
	switch e.Bop {
	case "+", "-", "*":
		if isF {
			var r float64
			switch e.Bop {
			case "+":
				r = a.fl() + b.fl()
			case "-":
				r = a.fl() - b.fl()
			default:
				r = a.fl() * b.fl()
			}
			bound(r)
			return c04Val{k: 'f', f: r}
		}
		if a.uns() && b.i < 0 {
			panic(c04Discard{"uint-wrap"})
		}
		switch e.Bop {
		case "+":
			return intKind(a.i + b.i)
		case "-":
			return intKind(a.i - b.i)
		}
		return intKind(a.i * b.i)
	case "/":
		if isX {
			panic(c04Discard{"division-of-open-typed-number"})
		}
		if b.fl() == 0 {
			panic(c04Discard{"division-by-zero"})
		}
		if isF {
			r := a.fl() / b.fl()
			bound(r)
			return c04Val{k: 'f', f: r}
		}
		if a.uns() && b.i < 0 {
			panic(c04Discard{"uint-wrap"})
		}
		return intKind(a.i / b.i)
	case "%":
		if !a.integral() || !b.integral() {
			panic(c04Discard{"mod-fractional"})
		}
		ai, bi := int64(a.fl()), int64(b.fl())
		if bi == 0 {
			panic(c04Discard{"division-by-zero"})
		}
		if a.uns() && bi < 0 {
			panic(c04Discard{"uint-wrap"})
		}
		if isF || isX {
			return c04Val{k: 'x', i: ai % bi, u: a.uns()}
		}
		return intKind(ai % bi)
	}
	panic("bad bop " + e.Bop)
}

func (v c04Var) goValue() interface{} {
	switch v.Kind {
	case "int":
		return int(v.I)
	case "int8":
		return int8(v.I)
	case "int16":
		return int16(v.I)
	case "int32":
		return int32(v.I)
	case "int64":
		return int64(v.I)
	case "uint":
		return uint(v.I)
	case "uint8":
		return uint8(v.I)
	case "uint16":
		return uint16(v.I)
	case "uint32":
		return uint32(v.I)
	case "uint64":
		return uint64(v.I)
	case "biguint":
		return uint(1)<<63 + uint(v.I)
	case "biguint64":
		return uint64(1)<<63 + uint64(v.I)
	case "float64":
		return v.F
	case "float32":
		return float32(v.F)
	case "string":
		return v.S
	case "level":
		return c04Rank(v.I)
	case "temp":
		return c04Temp(v.F)
	case "tag":
		return c04Tag(v.S)
	case "flag":
		return c04Flag(v.B)
	case "nan":
		return math.NaN()
	case "nstring":
		return c04NStr(v.S)
	case "nbool":
		return c04NBool(v.B)
	}
	return v.B
}

func judgeC04(c c04Case) (v core.Verdict) {
	src, sh := c04Print(c.Expr)
	ev := &c04Eval{vars: c.Vars, kinds: map[string]bool{}}
	var want c04Val
	var wantStr string
	func() {
		defer func() {
			if r := recover(); r != nil {
				if d, ok := r.(c04Discard); ok {
					v.Discard = d.why
					return
				}
				panic(r)
			}
		}()
		want = ev.eval(c.Expr)
		wantStr = want.print()
	}()
	if v.Discard != "" {
		return
	}
	var log []int
	vars := jet.VarMap{}
	data := map[string]interface{}{}
	for i, vr := range c.Vars {
		vars.Set(fmt.Sprintf("v%d", i), vr.goValue())
		if c.Wrapped {
			name := fmt.Sprintf("v%d", i)
			vars[name] = reflect.ValueOf(map[string]interface{}{name: vr.goValue()}).MapIndex(reflect.ValueOf(name))
		}
		data[fmt.Sprintf("V%d", i)] = vr.goValue()
	}
	vars.Set("two", func(v interface{}) (interface{}, error) { return v, nil })
	vars.SetFunc("p", func(a jet.Arguments) reflect.Value {
		log = append(log, int(a.Get(0).Float()))
		return a.Get(1)
	})
	tpl := "[{{ " + src + " }}]"
	s, _ := jetrun.NewSet(nil)
	t, po := jetrun.Parse(s, "/e.jet", tpl)
	v.NonTrivial = sh.nOps >= 2 && (sh.mixedLevels || sh.tightAfter) || ev.skipped > 0
	for k := range sh.opPairs {
		v.Label("pair:" + k)
	}
	for k := range ev.kinds {
		v.Label("kinds:" + k)
	}
	if sh.tightAfter {
		v.Label("tight-operator")
	}
	if ev.skipped > 0 {
		v.Label("lazy-probe-skipped")
	}
	if po.Failed() {
		v.Failf("%s (vars %+v) should evaluate to %q but does not parse: %s", tpl, c.Vars, wantStr, po)
		return
	}
	if sh.field {
		v.Label("context-field-operand")
	}
	var ctx interface{} = data
	if c.StructCtx && len(c.Vars) > 0 {
		var fields []reflect.StructField
		for i, vr := range c.Vars {
			fields = append(fields, reflect.StructField{Name: fmt.Sprintf("V%d", i), Type: reflect.TypeOf(vr.goValue())})
		}
		sv := reflect.New(reflect.StructOf(fields))
		for i, vr := range c.Vars {
			sv.Elem().Field(i).Set(reflect.ValueOf(vr.goValue()))
		}
		ctx = sv.Interface()
		v.Label("context-is-a-pointer-to-a-struct")
	}
	o := jetrun.Exec(t, vars, ctx)
	if o.Failed() {
		v.Failf("%s (vars %+v) should evaluate to %q but failed: %s", tpl, c.Vars, wantStr, o)
		return
	}
	if o.Out != "["+wantStr+"]" {
		v.Failf("%s (vars %+v): got %q want %q", tpl, c.Vars, o.Out, "["+wantStr+"]")
		return
	}
	a, b := append([]int(nil), log...), append([]int(nil), ev.log...)
	sort.Ints(a)
	sort.Ints(b)
	if fmt.Sprint(a) != fmt.Sprint(b) {
		v.Failf("%s (vars %+v): probes evaluated %v, the lazy operators allow exactly %v", tpl, c.Vars, log, ev.log)
	}
	return
}

func TestC04(t *testing.T) {
	core.Run(t, "C04",
		"typed expression trees (depth<=5) over numeric (also character constants)/string/bool literals and Execute variables of every Go int/uint/float kind plus string and bool, unsigned values beyond MaxInt64 on the right of floating-point operands, the same operand on both sides of == / != (also a NaN), context as a map or as a pointer to a struct; minimal + random redundant parentheses; every operator spaced on both sides or neither; && || ?: operands wrapped in logging probes; also: a negation written in front of an unparenthesised comparison (!a == b is !(a == b)); a quarter of the cases with VarMap entries of kind Interface (what reflect hands out for the entries of a map[string]interface{}); round 10: unary plus (on signed, unsigned and floating-point operands, and on unsigned values beyond MaxInt64 in comparisons); round 11: operands that come out of a Go function with the results (interface{}, error); non-trivial = >=2 operators with two different precedence levels adjacent without parentheses or a no-space operator, or a probe inside a branch the lazy operators must skip; shapes whose meaning the statement leaves open are discarded and counted",
		genC04, judgeC04)
}

func TestC04Replay(t *testing.T) { core.Replay(t, "C04", judgeC04) }
