package checks

// C08 — extends renders the root layout; blocks resolve to the most-derived
// definition (own > later imports > earlier imports > extended chain); named
// yield arguments in any order with defaults; 'yield content' renders the
// caller-supplied (or default) content in the caller's scope.

import (
	"fmt"
	"sort"
	"strings"
	"testing"

	"jetverif/core"
	"jetverif/mj"

	"pgregory.net/rapid"
)

type c08Case struct {
	Prog   *mj.Program `json:"prog"`
	Src    []string    `json:"src"`
	Labels []string    `json:"labels,omitempty"`
}

type c08Sig struct {
	name        string
	params      []string
	usesContent bool
}

type c08Gen struct {
	t      *rapid.T
	p      *mj.Program
	sigs   []c08Sig
	uniq   int
	labels map[string]bool
	defs   map[string][]string // block name -> files defining it
}

func (g *c08Gen) n(lo, hi int, l string) int { return rapid.IntRange(lo, hi).Draw(g.t, l) }
func (g *c08Gen) id(p string) string         { g.uniq++; return fmt.Sprintf("%s%d", p, g.uniq) }

func (g *c08Gen) argValue(vars []string) *mj.Expr {
	if len(vars) > 0 && g.n(0, 2, "argvar") == 0 {
		return mj.Var(vars[g.n(0, len(vars)-1, "argvarname")])
	}
	if g.n(0, 3, "argnum") == 0 {
		return mj.Num(float64(g.n(0, 9, "argnumv")))
	}
	if g.n(0, 7, "argnil") == 0 {
		// an argument that is written out binds its parameter, also when it evaluates to nothing
		g.labels["argument-evaluating-to-nil"] = true
		return mj.Nil()
	}
	if g.n(0, 5, "argdot") == 0 {
		g.labels["argument-or-default-reads-dot"] = true
		return mj.Dot() // the context of the yield / definition site, not the one handed to the block
	}
	return mj.Str(g.id("arg"))
}

// yield of one of the blocks with index >= minIdx (acyclic by construction).
func (g *c08Gen) yield(file string, minIdx int, vars []string, depth int, inUsesContent bool) []*mj.Node {
	if minIdx >= len(g.sigs) {
		return nil
	}
	sig := g.sigs[g.n(minIdx, len(g.sigs)-1, "yieldwhich")]
	n := &mj.Node{K: "yield", Name: sig.name}
	// named arguments: a shuffled subset
	perm := rapid.Permutation(sig.params).Draw(g.t, "argorder")
	for _, p := range perm {
		if g.n(0, 2, "omit") == 0 {
			g.labels["omitted-argument"] = true
			continue
		}
		arg := g.argValue(vars)
		if g.n(0, 3, "sameNameArg") == 0 {
			// pass a variable through under the parameter's own name: the argument is the caller's variable
			g.p.Vars[p] = mj.RStr("EV:" + p)
			arg = mj.Var(p)
			g.labels["argument-named-like-its-parameter"] = true
		}
		n.Params = append(n.Params, mj.Param{Name: p, E: arg})
	}
	if g.n(0, 4, "extraArg") == 0 {
		g.labels["argument-the-block-does-not-declare"] = true
		name := g.id("extra")
		if g.n(0, 1, "extraArgProbed") == 0 {
			name = "xarg" // block bodies ask whether this name is visible
		}
		n.Params = append(n.Params, mj.Param{Name: name, E: mj.Str(g.id("xargv"))})
	}
	if len(perm) >= 2 && len(n.Params) >= 2 && n.Params[0].Name != sig.params[0] {
		g.labels["shuffled-arguments"] = true
	}
	if g.n(0, 3, "yctx") == 0 {
		n.Ctx = mj.Str(g.id("yc"))
	}
	var out []*mj.Node
	if sig.usesContent || g.n(0, 4, "extraContent") == 0 {
		n.HasCont = true
		if inUsesContent && g.n(0, 4, "emptyContent") == 0 {
			// a content section with nothing in it is still the content: not the enclosing block's
			g.labels["explicitly-empty-content"] = true
			return []*mj.Node{n}
		}
		cv := g.id("cv")
		out = append(out, mj.Let(cv, mj.Str(cv+"-before")))
		n.Content = []*mj.Node{mj.Text("<c:" + g.id("") + ">")}
		// content runs in the yielder's scope: sees its variables, assignments persist
		if len(vars) > 0 {
			v := vars[g.n(0, len(vars)-1, "contentvar")]
			n.Content = append(n.Content, mj.Text("("+v+"="), mj.Print(mj.Var(v)), mj.Text(")"))
		}
		n.Content = append(n.Content, mj.Set(cv, mj.Str(cv+"-after")))
		// ... sees the yielded block's parameters, but not the block body's locals
		if len(sig.params) > 0 && g.n(0, 1, "contentParam") == 0 {
			p := sig.params[g.n(0, len(sig.params)-1, "cparam")]
			n.Content = append(n.Content, mj.Text("("+p+"="), mj.Print(mj.Var(p)), mj.Text(")"))
		}
		n.Content = append(n.Content, mj.Text("(local:"), mj.Print(mj.Call("isset", mj.Var("blocal"))), mj.Text(")"))
		if g.n(0, 2, "contentDot") == 0 {
			n.Content = append(n.Content, mj.Text("(.="), mj.Print(mj.Dot()), mj.Text(")"))
		}
		if depth < 3 && g.n(0, 2, "contentYield") == 0 {
			g.labels["yield-inside-content"] = true
			n.Content = append(n.Content, g.yield(file, minIdx+1, append(append([]string{}, vars...), cv), depth+1, inUsesContent)...)
		}
		if inUsesContent && g.n(0, 1, "contentInContent") == 0 {
			// the content of the block this yield sits in
			g.labels["content-nested-in-content"] = true
			n.Content = append(n.Content, mj.Text("{outer:"), &mj.Node{K: "ycontent"}, mj.Text("}"))
		}
		n.Content = append(n.Content, mj.Text("</c>"))
		out = append(out, n, mj.Text("("+cv+"="), mj.Print(mj.Var(cv)), mj.Text(")"))
		if g.n(0, 3, "defInContent") == 0 {
			// a block defined inside the content: rendered where it stands, and known by name to the whole file
			name := "CB" + g.id("")
			g.labels["block-defined-inside-content"] = true
			n.Content = append(n.Content, &mj.Node{K: "block", Name: name, Body: []*mj.Node{mj.Text("«" + name + "»")}})
			out = append(out, mj.Text("{by name:"), &mj.Node{K: "yield", Name: name}, mj.Text("}"))
		}
		return out
	}
	return []*mj.Node{n}
}

// definition of block sig in file.
func (g *c08Gen) def(file string, idx int, depth int) *mj.Node {
	sig := g.sigs[idx]
	for _, f := range g.defs[sig.name] {
		if f == file { // one definition per name and file (a repeated name is left to the engine's discretion)
			return mj.Text("[second definition of " + sig.name + " skipped]")
		}
	}
	g.defs[sig.name] = append(g.defs[sig.name], file)
	n := &mj.Node{K: "block", Name: sig.name}
	for _, p := range sig.params {
		var d *mj.Expr = mj.Str("dflt:" + p + "@" + file)
		if g.n(0, 3, "numdefault") == 0 {
			d = mj.Num(float64(g.n(0, 9, "numdefaultv")))
		}
		n.Params = append(n.Params, mj.Param{Name: p, E: d})
	}
	if g.n(0, 3, "bctx") == 0 {
		n.Ctx = mj.Str("ctx:" + sig.name + "@" + file)
	}
	body := []*mj.Node{mj.Text("«" + sig.name + "@" + file + "»")}
	for _, p := range sig.params {
		body = append(body, mj.Text("("+p+"="), mj.Print(mj.Var(p)), mj.Text(")"))
	}
	if g.n(0, 1, "bdot") == 0 {
		body = append(body, mj.Text("(.="), mj.Print(mj.Dot()), mj.Text(")"))
	}
	if g.n(0, 1, "xargProbe") == 0 {
		// arguments the block does not declare are bound all the same, whatever the block does declare
		body = append(body, mj.Text("(xarg?"), mj.Print(mj.Call("isset", mj.Var("xarg"))), mj.Text(")"))
		if len(sig.params) == 0 {
			g.labels["parameterless-block-looks-for-an-undeclared-argument"] = true
		}
	}
	body = append(body, mj.Let("blocal", mj.Str("local-of-"+sig.name)))
	if depth < 3 && g.n(0, 1, "byield") == 0 {
		body = append(body, g.yield(file, idx+1, append([]string{"blocal", "ev1"}, sig.params...), depth+1, sig.usesContent)...)
	}
	if sig.usesContent {
		yc := &mj.Node{K: "ycontent"}
		if g.n(0, 3, "ycctx") == 0 {
			yc.Ctx = mj.Str(g.id("ycc"))
		}
		body = append(body, mj.Text("{content:"), yc, mj.Text("}(.="), mj.Print(mj.Dot()), mj.Text(")"))
		if g.n(0, 3, "twice") == 0 {
			body = append(body, mj.Text("{again:"), &mj.Node{K: "ycontent"}, mj.Text("}"))
		}
	}
	if depth < 2 && idx+1 < len(g.sigs) && g.n(0, 3, "nested") == 0 {
		g.labels["nested-block-definition"] = true
		body = append(body, g.def(file, g.n(idx+1, len(g.sigs)-1, "nestedwhich"), depth+1))
	}
	body = append(body, mj.Text("«/"+sig.name+"»"))
	n.Body = body
	if sig.usesContent {
		n.HasCont = true
		n.Content = []*mj.Node{mj.Text("<default content of " + sig.name + "@" + file + ">")}
	}
	return n
}

// chainPath: the leaf sits in the root directory, every further chain file in its own directory
func chainPath(i int) string {
	if i == 0 {
		return "/c0.jet"
	}
	return fmt.Sprintf("/dir%d/c%d.jet", i, i)
}

func genC08(t *rapid.T) c08Case {
	g := &c08Gen{t: t, labels: map[string]bool{}, defs: map[string][]string{}}
	g.p = &mj.Program{Entry: "/c0.jet", Vars: map[string]mj.Recipe{"ev1": mj.RStr("EV1"), "ev2": mj.RInt(7)}}
	d := mj.RStr("CTX")
	g.p.Data = &d
	nb := g.n(1, 5, "nblocks")
	for i := 0; i < nb; i++ {
		s := c08Sig{name: fmt.Sprintf("B%d", i), usesContent: g.n(0, 2, "usesContent") == 0}
		for k := g.n(0, 2, "nparams"); k > 0; k-- {
			s.params = append(s.params, fmt.Sprintf("b%dp%d", i, len(s.params)))
		}
		g.sigs = append(g.sigs, s)
	}
	chain := g.n(0, 4, "chain") // number of extends links
	// one case in six: all chain files in the root directory, every name the beginning of the next one's
	// ("/p.jet" <- "/px.jet" <- "/pxx.jet", referred to without extension): prefix-related names are no cycle
	prefixNames := chain > 0 && g.n(0, 5, "prefixRelatedNames") == 0
	chainPath := func(i int) string {
		if prefixNames {
			return "/p" + strings.Repeat("x", chain-i) + ".jet"
		}
		return chainPath(i)
	}
	if prefixNames {
		g.labels["chain-of-prefix-related-names"] = true
	}
	nimp := g.n(0, 3, "nimports")
	ws := func() string { return []string{"", "", "\n", " \n\t"}[g.n(0, 3, "hdrws")] }
	// import files (may import later ones)
	var imports []*mj.File
	for i := 0; i < nimp; i++ {
		imports = append(imports, &mj.File{Path: fmt.Sprintf("/imp/i%d.jet", i)})
	}
	for i, f := range imports {
		for j := i + 1; j < nimp; j++ {
			if g.n(0, 2, "impimp") == 0 {
				f.Imports = append(f.Imports, imports[j].Path)
				f.HdrWS = append(f.HdrWS, ws())
			}
		}
		f.Body = []*mj.Node{mj.Text("text of import " + f.Path + " must not render")}
		for b := range g.sigs {
			if g.n(0, 1, "impdef") == 0 {
				f.Body = append(f.Body, g.def(f.Path, b, 1))
			}
		}
	}
	// extends chain c0 (leaf) -> c1 -> ... -> c<chain> (root)
	var files []*mj.File
	for i := 0; i <= chain; i++ {
		f := &mj.File{Path: chainPath(i)}
		if i < chain {
			// relative names resolve against the directory of the file that contains the clause, at every hop
			next := chainPath(i + 1)
			rel := "../" + next[1:]
			if i == 0 || prefixNames {
				rel = next[1:]
			}
			f.Extends = []string{next, rel, strings.TrimSuffix(rel, ".jet")}[g.n(0, 2, "extspelling")]
			f.HdrWS = append(f.HdrWS, ws())
		}
		perm := rapid.Permutation(imports).Draw(t, "importorder")
		for _, im := range perm {
			if g.n(0, 1, "useimport") == 0 {
				f.Imports = append(f.Imports, im.Path)
				f.HdrWS = append(f.HdrWS, ws())
			}
		}
		if len(f.Imports) >= 2 && g.n(0, 3, "reimport") == 0 {
			g.labels["same-import-twice"] = true
			f.Imports = append(f.Imports, f.Imports[0])
			f.HdrWS = append(f.HdrWS, ws())
		}
		files = append(files, f)
	}
	root := files[chain]
	// non-root chain files: junk text and definitions
	for i := 0; i < chain; i++ {
		f := files[i]
		f.Body = []*mj.Node{mj.Text("junk in " + f.Path)}
		for b := range g.sigs {
			if g.n(0, 1, "chaindef") == 0 {
				f.Body = append(f.Body, g.def(f.Path, b, 1), mj.Text(" more junk "))
			}
		}
	}
	// root body: text, definition sites, yields, inside range / if
	body := []*mj.Node{mj.Text("<root " + root.Path + ">")}
	for b := range g.sigs {
		switch g.n(0, 3, "rootuse") {
		case 0, 1:
			body = append(body, g.def(root.Path, b, 0))
		case 2:
			body = append(body, mj.Text("[no def of "+g.sigs[b].name+" here]"))
		}
	}
	for k := g.n(1, 4, "nyields"); k > 0; k-- {
		ys := g.yield(root.Path, 0, []string{"ev1", "ev2"}, 0, false)
		switch g.n(0, 3, "yieldplace") {
		case 0:
			g.labels["yield-in-range"] = true
			body = append(body, &mj.Node{K: "range", Names: []string{g.id("ri")}, Decl: true, E: mj.Call("ints", mj.Num(0), mj.Num(2)), Body: append([]*mj.Node{mj.Text("[")}, append(ys, mj.Text("]"))...)})
		case 1:
			g.labels["yield-in-if"] = true
			body = append(body, mj.If(mj.Var("ev1"), ys, nil))
		default:
			body = append(body, ys...)
		}
		body = append(body, mj.Text("|"))
	}
	// bounded recursion
	if g.n(0, 2, "rec") == 0 {
		g.labels["recursive-yield"] = true
		rec := &mj.Node{K: "block", Name: "REC", Params: []mj.Param{{Name: "d", E: mj.Num(2)}}, Body: []*mj.Node{
			mj.Text("r"), mj.Print(mj.Var("d")),
			mj.If(mj.Bin(">", mj.Var("d"), mj.Num(0)), []*mj.Node{{K: "yield", Name: "REC", Params: []mj.Param{{Name: "d", E: mj.Bin("-", mj.Var("d"), mj.Num(1))}}}}, nil),
		}}
		body = append(body, rec)
	}
	body = append(body, mj.Text("</root>"))
	root.Body = body
	g.p.Files = append(files, imports...)
	g.p.Entry = files[0].Path
	// every yielded name needs at least one definition reachable from the leaf: define missing ones in the root
	for b, s := range g.sigs {
		if len(g.defs[s.name]) == 0 {
			root.Body = append(root.Body, g.def(root.Path, b, 0))
		}
	}
	if g.n(0, 3, "viaInclude") == 0 {
		// the leaf is not executed directly but included by a host template: the same layout, the same blocks
		g.labels["leaf-reached-through-include"] = true
		g.p.Files = append(g.p.Files, &mj.File{Path: "/host/page.jet", Body: []*mj.Node{mj.Text("<host>"), {K: "include", E: mj.Str(files[0].Path)}, mj.Text("</host>")}})
		g.p.Entry = "/host/page.jet"
	}
	c := c08Case{Prog: g.p}
	src := mj.NewPrinter().Sources(g.p)
	var paths []string
	for p := range src {
		paths = append(paths, p)
	}
	sort.Strings(paths)
	for _, p := range paths {
		c.Src = append(c.Src, p+": "+src[p])
	}
	multi := 0
	for _, fs := range g.defs {
		if len(fs) >= 2 {
			multi++
		}
	}
	if multi > 0 {
		g.labels["name-defined-at-several-levels"] = true
	}
	g.labels[fmt.Sprintf("chain:%d", chain)] = true
	g.labels[fmt.Sprintf("imports:%d", nimp)] = true
	for k := range g.labels {
		c.Labels = append(c.Labels, k)
	}
	sort.Strings(c.Labels)
	return c
}

func judgeC08(c c08Case) (v core.Verdict) {
	want, discard := mj.ModelRun(c.Prog, nil)
	if discard != "" {
		v.Discard = "model:" + discard
		return
	}
	if want.Err != nil {
		v.Discard = "model-error:" + want.Err.Class
		return
	}
	got, _, _ := mj.EngineRun(c.Prog, nil)
	v.Label(c.Labels...)
	for _, l := range c.Labels {
		switch l {
		case "name-defined-at-several-levels", "shuffled-arguments", "omitted-argument", "content-nested-in-content":
			v.NonTrivial = true
		}
	}
	// which definition level won: read it off the rendered tags
	for _, part := range strings.Split(want.Out, "«") {
		if i := strings.Index(part, "»"); i > 0 && strings.Contains(part[:i], "@") {
			f := part[strings.Index(part, "@")+1 : i]
			switch {
			case strings.HasPrefix(f, "/imp/"):
				v.Label("winner:import")
			case f == "/c0.jet" || strings.HasPrefix(f, "/px"):
				v.Label("winner:leaf")
			default:
				v.Label("winner:chain")
			}
		}
	}
	desc := fmt.Sprintf("template set %q", c.Src)
	if got.Failed() {
		v.Failf("%s: engine failed (%s); the model renders %q", desc, got, want.Out)
		return
	}
	if got.Out != want.Out {
		v.Failf("%s:\n got  %q\n want %q", desc, got.Out, want.Out)
	}
	return
}

func TestC08(t *testing.T) {
	core.Run(t, "C08",
		"template sets: extends chain of 0-4 links (several spellings; one case in six with prefix-related names /p <- /px <- /pxx), 0-3 import files (importing each other acyclically, shuffled import order), 1-5 block names defined at several precedence levels with parameters+defaults, contexts, default content and nested definitions; yields at top level / in range / in if / in block bodies / in content with shuffled and omitted named arguments, arguments that evaluate to nil, arguments the block does not declare (looked for by parameterless blocks too), contexts and content (content nested in content, assignments from content, visibility of parameters and of block locals); bounded recursive yield; header whitespace; oracle = MiniJet reference interpreter (block-table overlay + dynamic lookup); non-trivial = a name defined at >=2 levels, shuffled or omitted arguments, or content nested in content",
		genC08, judgeC08)
}

func TestC08Replay(t *testing.T) { core.Replay(t, "C08", judgeC08) }
