package checks

// C17 — isset never fails and is true exactly when every argument resolves
// to an existing, non-nil value; v, ok := m[k] binds ok to key presence.

import (
	"fmt"
	"reflect"
	"strings"
	"testing"

	"jetverif/core"
	"jetverif/jetrun"

	"github.com/CloudyKit/jet/v6"
	"pgregory.net/rapid"
)

type c17Arg struct {
	Base  string  `json:"base"` // var | dot | undefined
	Steps []zStep `json:"steps"`
}

type c17Case struct {
	Variant int      `json:"variant"`
	Form    string   `json:"form"` // direct | prefix | piped | lookup
	Args    []c17Arg `json:"args"`
	Slot    int      `json:"slot,omitempty"` // piped-slot: position of '_' among the written arguments; lookup: the surface form
	Expr    string   `json:"expr"`
}

func zNotNil(v reflect.Value) bool {
	for v.IsValid() && v.Kind() == reflect.Interface && !v.IsNil() {
		v = v.Elem()
	}
	if !v.IsValid() {
		return false
	}
	switch v.Kind() {
	case reflect.Chan, reflect.Func, reflect.Interface, reflect.Map, reflect.Ptr, reflect.Slice:
		return !v.IsNil()
	}
	return true
}

// existence evaluator: every step resolves and is non-nil
func zIsSet(root interface{}, a c17Arg) bool {
	if a.Base == "undefined" {
		return false
	}
	for i := 1; i <= len(a.Steps); i++ {
		v, st, _ := zResolve(root, a.Steps[:i])
		if st != zOK || !zNotNil(v) {
			return false
		}
	}
	return zNotNil(reflect.ValueOf(root))
}

func genC17Arg(t *rapid.T, root interface{}) c17Arg {
	a := c17Arg{Base: []string{"var", "dot", "var", "dot", "undefined"}[rapid.IntRange(0, 4).Draw(t, "base")]}
	var steps []zStep
	for _, s := range genZPath(t, root, 4, 6) {
		if s.Kind == "method" && rapid.IntRange(0, 1).Draw(t, "methodNamedNotCalled") == 0 {
			// a chain that names a method (of a defined or an unnamed struct type) without calling it: the method
			// is what it resolves to, and that is something
			steps = append(steps, zStep{Kind: "methodval", Name: s.Name, Spell: s.Spell})
			break
		}
		if s.Kind == "method" || s.Kind == "slice" {
			break // documented argument kinds: identifier, field, index, chain
		}
		if (s.Kind == "index" || s.Kind == "key") && rapid.IntRange(0, 3).Draw(t, "varIndex") == 0 {
			s.Var = fmt.Sprintf("idx%d", s.I)
			if s.I < 0 {
				s.Var = fmt.Sprintf("idxm%d", -s.I)
			}
			if rapid.IntRange(0, 3).Draw(t, "undefIndex") == 0 {
				s.Var, s.Undef = "undefinedIndex", true
			}
		}
		steps = append(steps, s)
	}
	a.Steps = steps
	return a
}

func (a c17Arg) expr() string {
	base := map[string]string{"var": "root", "dot": ".", "undefined": "noSuchRoot"}[a.Base]
	return zPathString(base, a.Steps)
}

func genC17(t *rapid.T) c17Case {
	c := c17Case{Variant: rapid.IntRange(0, 7).Draw(t, "variant")}
	root := zooRoot(c.Variant)
	c.Form = []string{"direct", "direct", "prefix", "piped", "lookup", "piped-slot", "unhashable"}[rapid.IntRange(0, 6).Draw(t, "form")]
	n := 1
	if c.Form == "direct" || c.Form == "prefix" {
		n = rapid.IntRange(1, 4).Draw(t, "nargs")
	}
	if c.Form == "piped-slot" {
		n = rapid.IntRange(2, 4).Draw(t, "nslotargs") // the first one is piped into the slot
		c.Slot = rapid.IntRange(0, n-1).Draw(t, "slotpos")
	}
	for i := 0; i < n; i++ {
		c.Args = append(c.Args, genC17Arg(t, root))
	}
	if c.Form == "lookup" {
		c.Slot = rapid.IntRange(0, 4).Draw(t, "lookupForm")
	}
	if c.Form == "lookup" && c.Variant != 4 {
		// a map of the zoo and a present / absent / present-but-nil key
		m := []string{"M", "MI", "MN", "MA", "MP"}[rapid.IntRange(0, 4).Draw(t, "lookupMap")]
		key := map[string][]zStep{
			"M":  {{Kind: "field", Name: "one", Spell: "bracket"}, {Kind: "field", Name: "zero", Spell: "bracket"}, {Kind: "field", Name: "absentKey", Spell: "bracket"}},
			"MI": {{Kind: "key", I: 1}, {Kind: "key", I: 2}, {Kind: "key", I: 77}},
			"MN": {{Kind: "field", Name: "nk", Spell: "bracket"}, {Kind: "field", Name: "absentKey", Spell: "bracket"}},
			"MA": {{Kind: "field", Name: "s", Spell: "bracket"}, {Kind: "field", Name: "n", Spell: "bracket"}, {Kind: "field", Name: "absentKey", Spell: "bracket"}},
			"MP": {{Kind: "field", Name: "p", Spell: "bracket"}, {Kind: "field", Name: "nilp", Spell: "bracket"}, {Kind: "field", Name: "absentKey", Spell: "bracket"}},
		}[m]
		k := key[rapid.IntRange(0, len(key)-1).Draw(t, "lookupKey")]
		if k.Kind == "key" && rapid.Bool().Draw(t, "lookupVarKey") {
			k.Var = fmt.Sprintf("idx%d", k.I)
		}
		c.Args = []c17Arg{{Base: []string{"var", "dot"}[rapid.IntRange(0, 1).Draw(t, "lookupBase")], Steps: []zStep{{Kind: "field", Name: m, Spell: []string{"dot", "bracket"}[rapid.IntRange(0, 1).Draw(t, "lookupSpell")]}, k}}}
	}
	c.Expr = c.template()
	return c
}

func (c c17Case) template() string {
	var parts []string
	for _, a := range c.Args {
		parts = append(parts, a.expr())
	}
	switch c.Form {
	case "prefix":
		return "[{{ isset: " + strings.Join(parts, ", ") + " }}]"
	case "piped":
		return "[{{ " + parts[0] + " | isset }}]"
	case "piped-slot":
		written := append([]string{}, parts[1:]...)
		pos := c.Slot
		if pos > len(written) {
			pos = len(written)
		}
		written = append(written[:pos], append([]string{"_"}, written[pos:]...)...)
		return "[{{ " + parts[0] + " | isset(" + strings.Join(written, ", ") + ") }}]"
	case "unhashable":
		// a slice used as the key of a map[interface{}]T: a Go runtime error while resolving - still just "not set"
		return "[{{ isset(root.MK[unhashableKey], " + strings.Join(parts, ", ") + ") }}]"
	case "lookup":
		switch c.Slot % 5 {
		case 1: // assigning form, both variables declared before
			return "{{ v := 0 }}{{ ok := 0 }}{{ v, ok = " + parts[0] + " }}[{{ ok }}]"
		case 2:
			return "{{ _, ok := " + parts[0] + " }}[{{ ok }}]"
		case 3:
			return "{{ ok := 0 }}{{ _, ok = " + parts[0] + " }}[{{ ok }}]"
		case 4:
			return "[{{ if v, ok := " + parts[0] + "; ok }}true{{ else }}false{{ end }}]"
		}
		return "{{ v, ok := " + parts[0] + " }}[{{ ok }}]"
	}
	return "[{{ isset(" + strings.Join(parts, ", ") + ") }}]"
}

func judgeC17(c c17Case) (v core.Verdict) {
	root := zooRoot(c.Variant)
	tpl := c.template()
	v.Label("form:"+c.Form, fmt.Sprintf("nargs:%d", len(c.Args)))
	want := true
	failing, zeroPresent, typedNil := 0, false, false
	for _, a := range c.Args {
		set := zIsSet(root, a)
		if !set {
			want = false
			failing++
		}
		if fv, st, _ := zResolve(root, a.Steps); st == zOK && a.Base != "undefined" {
			if set && fv.IsValid() && fv.IsZero() {
				zeroPresent = true
				v.Label("zero-but-present")
			}
			if fv.IsValid() && (fv.Kind() == reflect.Ptr) && fv.IsNil() {
				typedNil = true
				v.Label("nil-pointer")
			}
		}
	}
	if c.Form == "unhashable" {
		want = false
		if c.Variant == 4 {
			v.Discard = "root-has-no-MK"
			return
		}
	}
	switch c.Form {
	case "piped", "piped-slot":
		// the piped expression is evaluated before isset sees it: only paths that evaluate without error
		a := c.Args[0]
		_, st, _ := zResolve(root, a.Steps)
		if a.Base == "undefined" || st == zErr {
			v.Discard = "piped-expression-fails-on-its-own"
			return
		}
	case "lookup":
		a := c.Args[0]
		if len(a.Steps) == 0 || a.Base == "undefined" {
			v.Discard = "lookup-needs-an-index-expression"
			return
		}
		last := a.Steps[len(a.Steps)-1]
		if last.Kind == "field" && last.Spell != "bracket" {
			v.Discard = "lookup-needs-an-index-expression"
			return
		}
		prefix, st, _ := zResolve(root, a.Steps[:len(a.Steps)-1])
		d, isNil := zDeref(prefix)
		if st != zOK || d.Kind() != reflect.Map || (isNil && false) {
			v.Discard = "lookup-on-non-map"
			return
		}
		// ok == key presence
		_, st2, _ := zResolve(root, a.Steps)
		want = st2 == zOK
		if st2 == zErr {
			v.Discard = "lookup-key-of-wrong-kind"
			return
		}
		v.Label(fmt.Sprintf("lookup-present:%v", want))
	}
	v.NonTrivial = failing == 1 && len(c.Args) >= 1 || zeroPresent || typedNil
	s, _ := jetrun.NewSet(map[string]string{"/t.jet": tpl})
	vars := jet.VarMap{}
	vars.Set("root", root)
	vars.Set("nokeys", map[string]int{})
	for k, v := range zIfaceKeys {
		vars.Set(k, v)
	}
	vars.Set("unhashableKey", []string{"a"})
	for i := -2; i <= 80; i++ {
		name := fmt.Sprintf("idx%d", i)
		if i < 0 {
			name = fmt.Sprintf("idxm%d", -i)
		}
		vars.Set(name, i)
	}
	vars.Set("idx256", 256)
	vars.Set("idx300", 300)
	t, o := jetrun.Get(s, "/t.jet")
	if o.Failed() {
		v.Failf("template %s does not parse: %s", tpl, o)
		return
	}
	o = jetrun.Exec(t, vars, root)
	desc := fmt.Sprintf("%s on zoo variant %d", tpl, c.Variant)
	if o.Failed() {
		v.Failf("%s: isset / two-value lookup must never fail: %s", desc, o)
		return
	}
	if o.Out != fmt.Sprintf("[%v]", want) {
		v.Failf("%s: rendered %q, the existence evaluator says %v", desc, o.Out, want)
	}
	return
}

func TestC17(t *testing.T) {
	core.Run(t, "C17",
		"isset over 1-4 access paths (identifier, field, index and chain expressions; valid or invalid at any depth; nil pointers, nil maps, nil and typed-nil interfaces, absent keys, zero numbers, empty strings, false; literal and variable indexes, some undefined; keys of interface-keyed maps that exist under one dynamic type only; undefined root) into 8 zoo variants, methods named without a call, written isset(a, b) / isset: a, b / v | isset, plus two-value look-ups (v, ok := m[k]; v, ok = m[k]; with _ for v; as the header of an if) on maps with present, absent and present-but-nil entries; also: fields promoted through (nested) embedded pointers whose interface{} value is a typed nil pointer / a nil map; a map keyed by an array of interfaces; round 10: slots of a named empty interface type holding typed nils; integer keys on string-keyed maps; round 11: maps with 64-bit integer keys indexed with numbers that change sign when converted; slices as indexes of an array-keyed map; oracle = independent existence evaluator; non-trivial = exactly one failing argument, or a zero-but-present value, or a nil pointer",
		genC17, judgeC17)
}

func TestC17Replay(t *testing.T) { core.Replay(t, "C17", judgeC17) }
