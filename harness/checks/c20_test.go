package checks

// C20 — utils.Walk, driven by a visitor that always descends with
// VisitorContext.Visit, hands every statement and expression node of a parsed
// template to the visitor exactly once, terminates and never panics.
//
// The walk runs in an isolated worker (runaway recursion is a fatal error).
// Oracle: multiset of visited nodes == independent reflective traversal of
// Template.Root over the exported AST fields.

import (
	"fmt"
	"reflect"
	"sort"
	"strings"
	"testing"

	"jetverif/core"
	"jetverif/gensrc"
	"jetverif/jetrun"

	"github.com/CloudyKit/jet/v6"
	"github.com/CloudyKit/jet/v6/utils"
	"pgregory.net/rapid"
)

type walkResp struct {
	Problems []string       `json:"problems,omitempty"`
	Kinds    map[string]int `json:"kinds"`
	Total    int            `json:"total"`
	Panic    string         `json:"panic,omitempty"`
}

var nodeIface = reflect.TypeOf((*jet.Node)(nil)).Elem()

// collectNodes walks every exported field reachable from v and records each
// non-nil pointer that implements jet.Node. optional marks nodes reached only
// as the catch wrapper / catch variable (containers, not statements or expressions).
func collectNodes(v reflect.Value, out map[jet.Node]int, optional map[jet.Node]bool, inCatchHead bool) {
	switch v.Kind() {
	case reflect.Interface:
		if v.IsNil() {
			return
		}
		collectNodes(v.Elem(), out, optional, inCatchHead)
	case reflect.Ptr:
		if v.IsNil() {
			return
		}
		isCatch := false
		if v.Type().Implements(nodeIface) && v.CanInterface() {
			n := v.Interface().(jet.Node)
			out[n]++
			tn := v.Type().Elem().Name()
			isCatch = tn == "catchNode"
			if tn == "ListNode" || tn == "BlockParameterList" || isCatch || inCatchHead {
				optional[n] = true
			}
			if out[n] > 1 {
				return // shared node: counted again, not re-descended
			}
		}
		e := v.Elem()
		if e.Kind() == reflect.Struct {
			for i := 0; i < e.NumField(); i++ {
				f := e.Type().Field(i)
				if f.PkgPath != "" && !f.Anonymous {
					continue
				}
				collectNodes(e.Field(i), out, optional, isCatch && f.Name == "Err")
			}
		}
	case reflect.Struct:
		for i := 0; i < v.NumField(); i++ {
			if f := v.Type().Field(i); f.PkgPath != "" && !f.Anonymous {
				continue
			}
			collectNodes(v.Field(i), out, optional, false)
		}
	case reflect.Slice:
		for i := 0; i < v.Len(); i++ {
			collectNodes(v.Index(i), out, optional, false)
		}
	}
}

func kindName(n jet.Node) string {
	if n == nil {
		return "<nil>"
	}
	return strings.TrimPrefix(reflect.TypeOf(n).String(), "*jet.")
}

func doWalk(t *jet.Template) *walkResp {
	r := &walkResp{Kinds: map[string]int{}}
	want := map[jet.Node]int{}
	optional := map[jet.Node]bool{}
	collectNodes(reflect.ValueOf(t.Root), want, optional, false)
	got := map[jet.Node]int{}
	nilVisits := 0
	func() {
		defer func() {
			if p := recover(); p != nil {
				r.Panic = fmt.Sprint(p)
			}
		}()
		utils.Walk(t, utils.VisitorFunc(func(vc utils.VisitorContext, n jet.Node) {
			if n == nil || (reflect.ValueOf(n).Kind() == reflect.Ptr && reflect.ValueOf(n).IsNil()) {
				nilVisits++
				return
			}
			got[n]++
			vc.Visit(n)
		}))
	}()
	if nilVisits > 0 {
		r.Problems = append(r.Problems, fmt.Sprintf("visitor was handed a nil node %d time(s)", nilVisits))
	}
	for n, w := range want {
		r.Total++
		r.Kinds[kindName(n)]++
		g := got[n]
		switch {
		case optional[n]:
			if g > w {
				r.Problems = append(r.Problems, fmt.Sprintf("container %s (%q) visited %d times", kindName(n), clip(n.String()), g))
			}
		case g != w:
			r.Problems = append(r.Problems, fmt.Sprintf("%s %q occurs %d time(s) in the tree but was visited %d time(s)", kindName(n), clip(n.String()), w, g))
		case g > 1:
			// the same node object hangs under several parents: what the parser hands out is not a tree, and the
			// visitor is given one node more than once
			r.Problems = append(r.Problems, fmt.Sprintf("%s %q was visited %d times (one node object reachable from %d places)", kindName(n), clip(n.String()), g, w))
		}
	}
	for n, g := range got {
		if _, ok := want[n]; !ok {
			r.Problems = append(r.Problems, fmt.Sprintf("visitor was handed %s %q (%d times) which is not in the tree", kindName(n), clip(n.String()), g))
		}
	}
	sort.Strings(r.Problems)
	if len(r.Problems) > 6 {
		r.Problems = r.Problems[:6]
	}
	return r
}

func clip(s string) string {
	if len(s) > 60 {
		return s[:60] + "…"
	}
	return s
}

type c20Case struct {
	Delims jetrun.Delims `json:"delims"`
	Src    string        `json:"src"`
	Kinds  []string      `json:"kinds,omitempty"`
}

var c20Rare = []string{"include", "try", "catch", "catch-var", "return", "underscore-slot", "slice-open-both", "slice-open-low", "slice-open-high", "let-lookup", "block", "yield-content", "unary-minus", "yield-with-content", "block-content"}

func genC20(t *rapid.T) c20Case {
	var d jetrun.Delims
	if rapid.IntRange(0, 4).Draw(t, "customDelims") == 0 {
		d = genDelims(t)
	}
	g := gensrc.New(t, d.L(), d.R(), d.CL(), d.CR())
	g.Strays = true
	c := c20Case{Delims: d, Src: g.Program()}
	if rapid.IntRange(0, 3).Draw(t, "dropTokens") == 0 {
		// a typo: one or two tokens are missing. Most such sources do not parse (then there is nothing to walk);
		// whatever does parse is a template like any other
		toks := tokRe.FindAllString(c.Src, -1)
		for k := rapid.IntRange(1, 2).Draw(t, "ndropped"); k > 0 && len(toks) > 1; k-- {
			i := rapid.IntRange(0, len(toks)-1).Draw(t, "dropped")
			toks = append(toks[:i], toks[i+1:]...)
		}
		c.Src = strings.Join(toks, "")
		g.Kinds["token-dropped"]++
	}
	switch rapid.IntRange(0, 39).Draw(t, "longChain") {
	case 0:
		// one operand per tree level: hundreds of levels
		n := rapid.IntRange(300, 900).Draw(t, "sumOperands")
		c.Src += d.L() + " a" + strings.Repeat(rapid.SampledFrom([]string{" + b", " - 1", " + x.y"}).Draw(t, "sumTerm"), n) + " " + d.R()
		g.Kinds["long-sum"]++
	case 1:
		n := rapid.IntRange(150, 400).Draw(t, "elseIfArms")
		c.Src += d.L() + "if a" + d.R() + "0" + strings.Repeat(d.L()+"else if b"+d.R()+"x", n) + d.L() + "end" + d.R()
		g.Kinds["long-else-if-chain"]++
	case 2:
		n := rapid.IntRange(200, 600).Draw(t, "pipeStages")
		c.Src += d.L() + " a" + strings.Repeat(" | f", n) + " " + d.R()
		g.Kinds["long-pipeline"]++
	}
	for k := range g.Kinds {
		c.Kinds = append(c.Kinds, k)
	}
	sort.Strings(c.Kinds)
	return c
}

func judgeC20(c c20Case) (v core.Verdict) {
	resp, crash, hang, infra := isoCall(isoReq{Op: "walk", Name: "/main.jet", Src: c.Src, Delims: c.Delims})
	if infra != nil {
		panic(infra)
	}
	if crash != "" {
		v.Failf("walking %q killed the process: %s", c.Src, lastLines(crash, 12))
		return
	}
	if hang {
		v.Failf("walking %q did not terminate (20 s, twice)", c.Src)
		return
	}
	if resp.HasErr || resp.CallerPanic != "" || resp.Walk == nil {
		v.Discard = "not-parsed"
		return
	}
	rare := 0
	for _, k := range c.Kinds {
		for _, r := range c20Rare {
			if k == r {
				rare++
				v.Label("has:" + k)
			}
		}
	}
	for k := range resp.Walk.Kinds {
		v.Label("node:" + k)
	}
	v.NonTrivial = rare > 0
	if resp.Walk.Panic != "" {
		v.Failf("Walk panicked on %q: %s", c.Src, resp.Walk.Panic)
		return
	}
	if len(resp.Walk.Problems) > 0 {
		v.Failf("Walk of %q: %s", c.Src, strings.Join(resp.Walk.Problems, "; "))
	}
	return
}

func lastLines(s string, n int) string {
	// first lines carry the panic / fatal error message
	lines := strings.Split(strings.TrimSpace(s), "\n")
	var keep []string
	for _, l := range lines {
		if strings.HasPrefix(l, "panic:") || strings.HasPrefix(l, "fatal error:") || strings.HasPrefix(l, "runtime:") {
			keep = append(keep, l)
		}
	}
	if len(keep) == 0 {
		if len(lines) > n {
			lines = lines[:n]
		}
		return strings.Join(lines, " | ")
	}
	if len(keep) > 4 {
		keep = keep[:4]
	}
	return strings.Join(keep, " | ")
}

func TestC20(t *testing.T) {
	defer isoPool.Close()
	core.Run(t, "C20",
		"full-grammar generated programs (every statement and expression kind; custom delimiters in 1/5; one or two tokens dropped from the source in 1/4) parsed by the engine and walked in an isolated worker; non-trivial = contains >=1 of include/try/catch/return/_ slot/open slice/two-value let/block/yield content/unary minus; distinct by case hash; programs the parser rejects are discarded and counted",
		genC20, judgeC20)
}

func TestC20Replay(t *testing.T) {
	defer isoPool.Close()
	core.Replay(t, "C20", judgeC20)
}
