package checks

// C15 — template names are canonicalised: Loader and Cache only ever see
// clean absolute slash paths, relative names resolve against the referring
// template's directory (extends/import/include) or the root (GetTemplate,
// exec, includeIfExists), nothing resolves above the root.

import (
	"fmt"
	"io"
	"os"
	"path/filepath"
	"strings"
	"sync"
	"testing"

	"jetverif/core"
	"jetverif/jetrun"

	"github.com/CloudyKit/jet/v6"
	"pgregory.net/rapid"
)

type c15Case struct {
	Via      string   `json:"via"`      // get | extends | import | include | include-computed | exec | includeIfExists
	Depth    int      `json:"depth"`    // directory depth of the referring template
	Spelling string   `json:"spelling"` // how the target is spelt
	Alt      string   `json:"alt"`      // another spelling of the same target
	Exts     []string `json:"exts"`
	Ext      string   `json:"ext"` // extension the target file carries
	OS       bool     `json:"os"`  // OSFileSystemLoader rooted in a temp dir with marker files outside
	// Hop: the referring template is not asked for directly; a template in another directory reaches it
	// through its own extends / import clause ("" = no hop). The referrer's relative names still resolve
	// against the referrer's directory, not the directory of whoever asked first.
	Hop string `json:"hop,omitempty"`
	// Others (via=get only): further spellings of other templates, all looked up at the same time on one Set
	// by one goroutine each; every lookup must still be answered with the template its own name denotes and
	// the loader must see nothing but canonical forms of the names that were asked for.
	Others []string `json:"others,omitempty"`
	// Missing: the target does not exist. The lookup fails (includeIfExists: renders nothing), but what
	// Loader and Cache are asked for is still nothing but the canonical name plus the configured extensions.
	Missing bool `json:"missing,omitempty"`
	// Twin (include only): in the same Execute a second template, in another directory, includes the same
	// spelling; each include resolves against its own file.
	Twin bool `json:"twin,omitempty"`
	// ParseAs != "": the referring template is not loaded by name but handed to Set.Parse under this
	// (possibly relative, possibly unclean) spelling of its name; its own references resolve as if it had
	// been loaded under the canonical form of that name.
	ParseAs string `json:"parse_as,omitempty"`
	// Pair != nil: two referring templates whose directory names are string prefixes of one another ("/d1" and
	// "/d") use relative names that spell the same string when glued to their directory ("/d1"+"x" and
	// "/d"+"1x"); each still means the file next to its own referrer. Pair = {long dir, short dir, order}.
	Pair []string `json:"pair,omitempty"`
	// Content: the include sits in the content a template hands to a block that another directory defines
	// ({{yield frame() content}}{{include "name"}}{{end}}): it belongs to the template it is written in.
	Content string `json:"content,omitempty"` // "" | "imported" | "layout"
}

const c15TwinRef = "/tw/in/r"

const c15Entry = "/hop/entry"

type c15Name struct{ s string }

func (n c15Name) String() string { return n.s }

type traceEv struct {
	Op   string
	Path string
	OK   bool
}

type recLoader struct {
	mu    sync.Mutex
	inner jet.Loader
	trace *[]traceEv
}

func (r *recLoader) Exists(p string) bool {
	ok := r.inner.Exists(p)
	r.mu.Lock()
	*r.trace = append(*r.trace, traceEv{"Exists", p, ok})
	r.mu.Unlock()
	return ok
}

func (r *recLoader) Open(p string) (io.ReadCloser, error) {
	rc, err := r.inner.Open(p)
	r.mu.Lock()
	*r.trace = append(*r.trace, traceEv{"Open", p, err == nil})
	r.mu.Unlock()
	return rc, err
}

type recCache struct {
	mu     *sync.Mutex
	m      map[string]*jet.Template
	trace  *[]traceEv
	refuse bool // Put records the call and drops the entry
}

func (c *recCache) Get(p string) *jet.Template {
	c.mu.Lock()
	defer c.mu.Unlock()
	t := c.m[p]
	*c.trace = append(*c.trace, traceEv{"Get", p, t != nil})
	return t
}

func (c *recCache) Put(p string, t *jet.Template) {
	c.mu.Lock()
	defer c.mu.Unlock()
	if !c.refuse {
		c.m[p] = t
	}
	*c.trace = append(*c.trace, traceEv{"Put", p, true})
}

// (a backslash is an ordinary file name character where the path separator is '/')
var c15Segs = []string{"a", "b", "tpl.jet", "d1", ".", "..", "..", "", "a", "d2", "..\\..\\esc", "b\\c", "..\\a",
	// names that only look special: three and more dots, dots and blanks, a trailing dot or blank, control characters
	"...", "....", ". .", "x.", "y ", " ", ".. ", "c\x01d", "\x7f", ".\x7f."}

func genC15Spelling(t *rapid.T, label string) string {
	n := rapid.IntRange(1, 5).Draw(t, label+"N")
	var parts []string
	for i := 0; i < n; i++ {
		parts = append(parts, c15Segs[rapid.IntRange(0, len(c15Segs)-1).Draw(t, label)])
	}
	s := strings.Join(parts, "/")
	switch rapid.IntRange(0, 2).Draw(t, label+"Lead") {
	case 0:
		s = "/" + s
	case 1:
		if rapid.Bool().Draw(t, label+"DotLead") {
			s = "./" + s
		}
	}
	if rapid.IntRange(0, 5).Draw(t, label+"Trail") == 0 {
		s += "/"
	}
	if s == "" {
		s = "."
	}
	return s
}

// respell returns another spelling with the same canonical form.
func respell(t *rapid.T, s string) string {
	abs := strings.HasPrefix(s, "/")
	body := strings.TrimPrefix(s, "/")
	switch rapid.IntRange(0, 4).Draw(t, "respell") {
	case 0:
		body = "./" + body
	case 1:
		body = "zz/../" + body
	case 2:
		body = strings.Replace(body, "/", "//", 1)
	case 3:
		body = body + "/."
	default:
		body = "./zz/.././" + body
	}
	if abs {
		return "/" + body
	}
	return body
}

var c15ExtLists = [][]string{
	{"", ".jet", ".html.jet", ".jet.html"},
	{"", ".jet", ".html.jet", ".jet.html"},
	{".jet", ".html.jet"},
	{".jet"},
	{"", ".tpl"},
	// entries that are plain name suffixes (no leading dot): used as they are
	{"", "jet"}, {"-tpl", ".jet"}, {"_t", ""},
}

var c15Pairs = [][2]string{{"/d1", "/d"}, {"/ab", "/a"}, {"/a/bc", "/a/b"}, {"/x", "/"}, {"/d1/d2", "/d1/d"}}

func genC15(t *rapid.T) c15Case {
	c := c15Case{}
	if rapid.IntRange(0, 14).Draw(t, "includeInContent") == 0 {
		c.Via = "include"
		c.Content = rapid.SampledFrom([]string{"imported", "layout", "imported-nested", "layout-include-in-block"}).Draw(t, "contentKind")
		c.Spelling = rapid.SampledFrom([]string{"part", "./part", "sub/../part", "sub/part", "../pages/part"}).Draw(t, "contentName")
		c.Exts = []string{"", ".jet"}
		return c
	}
	if rapid.IntRange(0, 11).Draw(t, "prefixPair") == 0 {
		pr := c15Pairs[rapid.IntRange(0, len(c15Pairs)-1).Draw(t, "pair")]
		c.Via = rapid.SampledFrom([]string{"include", "extends", "import", "includeIfExists"}).Draw(t, "pairVia")
		c.Pair = []string{pr[0], pr[1], rapid.SampledFrom([]string{"long-first", "short-first"}).Draw(t, "pairOrder")}
		c.Spelling = rapid.SampledFrom([]string{"x", "x/t", "x/../y", "t.jet", "x/./t"}).Draw(t, "pairName")
		c.Exts = []string{"", ".jet"}
		return c
	}
	c.Via = rapid.SampledFrom([]string{"get", "extends", "import", "include", "include-computed", "include-stringer", "exec", "includeIfExists"}).Draw(t, "via")
	c.Depth = rapid.IntRange(0, 3).Draw(t, "depth")
	c.Spelling = genC15Spelling(t, "sp")
	c.Alt = respell(t, c.Spelling)
	c.Exts = c15ExtLists[rapid.IntRange(0, len(c15ExtLists)-1).Draw(t, "exts")]
	c.Ext = c.Exts[rapid.IntRange(0, len(c.Exts)-1).Draw(t, "ext")]
	c.OS = rapid.IntRange(0, 3).Draw(t, "os") == 0
	if c.Via == "get" && !c.OS && rapid.IntRange(0, 2).Draw(t, "concurrent") == 0 {
		for k := rapid.IntRange(1, 3).Draw(t, "nothers"); k > 0; k-- {
			c.Others = append(c.Others, genC15Spelling(t, "other"))
		}
	}
	if len(c.Others) == 0 && rapid.IntRange(0, 4).Draw(t, "missing") == 0 {
		c.Missing = true
	}
	if (c.Via == "include" || c.Via == "include-computed" || c.Via == "include-stringer") && !c.Missing && rapid.IntRange(0, 2).Draw(t, "twin") == 0 {
		c.Twin = true
		return c
	}
	if c.Via != "get" && rapid.IntRange(0, 3).Draw(t, "parseEntry") == 0 {
		ref := c.referrer()
		c.ParseAs = []string{ref[1:], "./" + ref[1:], ref, "zz/.." + ref, "/" + ref}[rapid.IntRange(0, 4).Draw(t, "parseSpelling")]
		return c
	}
	if c.Via != "get" {
		c.Hop = rapid.SampledFrom([]string{"", "", "extends", "import"}).Draw(t, "hop")
		if c.Hop == "import" && c.Via == "extends" {
			c.Hop = "extends"
		}
	}
	return c
}

func (c c15Case) referrer() string {
	parts := append([]string{}, []string{"d1", "d2", "d3"}[:c.Depth]...)
	return "/" + strings.Join(append(parts, "r"), "/")
}

// referrerFile is where the referring template is stored: its name plus a configured extension.
func (c c15Case) referrerFile() string { return c.referrer() + c.Exts[len(c.Exts)-1] }

// twinCanonical: what the same spelling means in the twin referrer.
func (c c15Case) twinCanonical(spelling string) string {
	if strings.HasPrefix(spelling, "/") {
		return normPath(spelling)
	}
	return normPath(filepath.ToSlash(filepath.Dir(c15TwinRef)) + "/" + spelling)
}

// canonical is the independently computed name the Set must request.
func (c c15Case) canonical(spelling string) string {
	if strings.HasPrefix(spelling, "/") {
		return normPath(spelling)
	}
	base := "/"
	switch c.Via {
	case "extends", "import", "include", "include-computed", "include-stringer":
		base = filepath.ToSlash(filepath.Dir(c.referrer()))
	}
	return normPath(base + "/" + spelling)
}

func cleanAbs(p string) bool {
	if !strings.HasPrefix(p, "/") {
		return false
	}
	if p == "/" {
		return true
	}
	for _, seg := range strings.Split(p[1:], "/") {
		if seg == "" || seg == "." || seg == ".." {
			return false
		}
	}
	return true
}

func (c c15Case) files(spelling string) map[string]string {
	target := c.canonical(spelling) + c.Ext
	ref := c.referrerFile()
	q := fmt.Sprintf("%q", spelling)
	files := map[string]string{}
	switch c.Via {
	case "get":
		files[target] = "TARGET"
	case "extends":
		files[target] = "TARGET"
		files[ref] = "{{extends " + q + "}}junk"
	case "import":
		files[target] = "{{block tb()}}TARGET{{end}}"
		files[ref] = "{{import " + q + "}}{{yield tb()}}"
	case "include":
		files[target] = "TARGET"
		files[ref] = "[{{include " + q + "}}]"
	case "include-computed", "include-stringer":
		files[target] = "TARGET"
		files[ref] = "[{{include name}}]"
	case "exec":
		files[target] = `{{return "TARGET"}}`
		files[ref] = "[{{exec(" + q + ")}}]"
	case "includeIfExists":
		files[target] = "TARGET"
		files[ref] = "[{{includeIfExists(" + q + ")}}]"
	}
	if c.Missing {
		delete(files, target)
	}
	if c.Twin {
		last := c.Exts[len(c.Exts)-1]
		tt := c.twinCanonical(spelling) + c.Ext
		if _, same := files[tt]; !same {
			files[tt] = "TWIN"
		}
		files[c15TwinRef+last] = files[ref]
		files[c15Entry+last] = fmt.Sprintf("{{include %q}}|{{include %q}}", c.referrer(), c15TwinRef)
	}
	switch c.Hop {
	case "extends":
		files[c15Entry+c.Exts[len(c.Exts)-1]] = fmt.Sprintf("{{extends %q}}entry junk", c.referrer())
	case "import":
		clause, body := "", files[ref]
		if c.Via == "import" {
			clause, body = "{{import "+q+"}}", "{{yield tb()}}"
		}
		files[ref] = clause + "{{block rb()}}" + body + "{{end}}"
		files[c15Entry+c.Exts[len(c.Exts)-1]] = fmt.Sprintf("{{import %q}}{{yield rb()}}", c.referrer())
	}
	return files
}

func (c c15Case) wantOut() string {
	switch c.Via {
	case "get", "extends", "import":
		return "TARGET"
	}
	return "[TARGET]"
}

// run builds a fresh Set, performs the lookup/execution and returns the trace.
func (c c15Case) run(spelling string, tmp string) (trace []traceEv, out jetrun.Outcome, names []string, outside bool) {
	files := c.files(spelling)
	var inner jet.Loader
	if c.OS {
		root := filepath.Join(tmp, "x", "y", "root")
		for p, content := range files {
			for _, base := range []struct{ dir, content string }{{root, content}, {filepath.Join(tmp, "x", "y"), "OUTSIDE-MARKER"}, {filepath.Join(tmp, "x"), "OUTSIDE-MARKER"}} {
				fp := filepath.Join(base.dir, filepath.FromSlash(p))
				if st, err := os.Stat(fp); err == nil && st.IsDir() {
					continue
				}
				if err := os.MkdirAll(filepath.Dir(fp), 0o755); err != nil {
					continue // a file of an inner tree is in the way; irrelevant for the marker
				}
				_ = os.WriteFile(fp, []byte(base.content), 0o644)
			}
		}
		inner = jet.NewOSFileSystemLoader(root)
		// a directory next to the root whose name begins with the root's name, and a name that is an OS path into the
		// root: clean absolute template names both, and neither is a file below the root
		sib := root + "-private"
		if os.MkdirAll(sib, 0o755) == nil && os.WriteFile(filepath.Join(sib, "secret.jet"), []byte("OUTSIDE-MARKER"), 0o644) == nil {
			for _, nm := range []string{filepath.ToSlash(sib) + "/secret.jet", filepath.ToSlash(root) + "-private/secret.jet"} {
				if inner.Exists(nm) {
					return nil, jetrun.Outcome{Out: "Exists(" + nm + ") OUTSIDE-MARKER"}, nil, true
				}
				if st, ok := jetrun.Get(jet.NewSet(inner), nm); !ok.Failed() && st != nil {
					return nil, jetrun.Outcome{Out: "GetTemplate(" + nm + ") OUTSIDE-MARKER"}, nil, true
				}
			}
		}
	} else {
		m := jet.NewInMemLoader()
		for p, content := range files {
			m.Set(p, content)
		}
		inner = m
	}
	rl := &recLoader{inner: inner, trace: &trace}
	rc := &recCache{mu: &rl.mu, m: map[string]*jet.Template{}, trace: &trace}
	s := jet.NewSet(rl, jet.WithCache(rc), jet.WithTemplateNameExtensions(c.Exts))
	entry := c.referrer()
	if c.Via == "get" {
		entry = spelling
	}
	if c.Hop != "" || c.Twin {
		entry = c15Entry
	}
	var t *jet.Template
	var o jetrun.Outcome
	if c.ParseAs != "" {
		t, o = jetrun.Parse(s, c.ParseAs, files[c.referrerFile()])
	} else {
		t, o = jetrun.Get(s, entry)
	}
	if o.Failed() {
		return trace, o, nil, false
	}
	names = append(names, t.Name)
	vars := jet.VarMap{}
	vars.Set("name", spelling)
	if c.Via == "include-stringer" {
		vars.Set("name", c15Name{spelling}) // a name computed at run time that is not a string but has a String method
	}
	out = jetrun.Exec(t, vars, nil)
	outside = strings.Contains(out.Out, "OUTSIDE-MARKER")
	return trace, out, names, outside
}

// judgeC15Concurrent: several names looked up at the same time on one Set.
func judgeC15Concurrent(c c15Case) (v core.Verdict) {
	spellings := append([]string{c.Spelling, c.Alt}, c.Others...)
	files := map[string]string{}
	for _, sp := range spellings {
		p := c.canonical(sp) + c.Ext
		files[p] = "T:" + p
	}
	allowed := map[string]bool{}
	expect := map[string]string{} // spelling -> file that answers it: first configured extension that exists
	for _, sp := range spellings {
		canon := c.canonical(sp)
		allowed[canon] = true
		for _, e := range c.Exts {
			allowed[canon+e] = true
			if _, ok := files[canon+e]; ok && expect[sp] == "" {
				expect[sp] = canon + e
			}
		}
	}
	v.NonTrivial = true
	v.Label("via:get-concurrent", fmt.Sprintf("concurrent-names:%d", len(spellings)))
	var trace []traceEv
	m := jet.NewInMemLoader()
	for p, content := range files {
		m.Set(p, content)
	}
	rl := &recLoader{inner: m, trace: &trace}
	rc := &recCache{m: map[string]*jet.Template{}, trace: &trace}
	rc.mu = &rl.mu // one lock for the shared trace
	s := jet.NewSet(rl, jet.WithCache(rc), jet.WithTemplateNameExtensions(c.Exts))
	var wg sync.WaitGroup
	var pmu sync.Mutex
	problem := ""
	start := make(chan struct{})
	for g := 0; g < 2*len(spellings); g++ {
		wg.Add(1)
		go func(sp string) {
			defer wg.Done()
			<-start
			for round := 0; round < 12; round++ {
				t, o := jetrun.Get(s, sp)
				msg := ""
				if o.Failed() {
					msg = fmt.Sprintf("GetTemplate(%q) failed although %s exists: %s", sp, expect[sp], o)
				} else if t.Name != expect[sp] {
					msg = fmt.Sprintf("GetTemplate(%q) returned the template %q, want %q", sp, t.Name, expect[sp])
				} else if out := jetrun.Exec(t, nil, nil); out.Failed() || out.Out != files[expect[sp]] {
					msg = fmt.Sprintf("GetTemplate(%q) renders %s, want %q", sp, out, files[expect[sp]])
				}
				if msg != "" {
					pmu.Lock()
					if problem == "" {
						problem = msg
					}
					pmu.Unlock()
					return
				}
			}
		}(spellings[g%len(spellings)])
	}
	close(start)
	wg.Wait()
	if problem != "" {
		v.Failf("names %q looked up concurrently (exts %q): %s", spellings, c.Exts, problem)
		return
	}
	for _, ev := range trace {
		if !cleanAbs(ev.Path) || !allowed[ev.Path] {
			v.Failf("names %q looked up concurrently (exts %q): %s received %q, which is not the canonical form of any of them plus a configured extension", spellings, c.Exts, ev.Op, ev.Path)
			return
		}
	}
	return
}

// judgeC15Pair: see c15Case.Pair.
func judgeC15Pair(c c15Case) (v core.Verdict) {
	long, short := c.Pair[0], c.Pair[1]
	n1 := c.Spelling
	n2 := strings.TrimPrefix(long[len(short):], "/") + n1 // short + n2 and long + n1 are the same string
	if short == "/" {
		n2 = long[1:] + n1
	}
	ref := func(name string) string {
		switch c.Via {
		case "extends":
			return fmt.Sprintf("{{extends %q}}", name)
		case "import":
			return fmt.Sprintf("{{import %q}}{{yield who()}}", name)
		case "includeIfExists":
			return fmt.Sprintf("{{includeIfExists(%q)}}", name)
		}
		return fmt.Sprintf("{{include %q}}", name)
	}
	target := func(dir, name string) string { return normPath(dir + "/" + name) }
	if c.Via == "includeIfExists" { // the function form resolves against the root, whoever calls it
		target = func(dir, name string) string { return normPath("/" + name) }
	}
	t1, t2 := target(long, n1), target(short, n2)
	body := func(p string) string {
		if c.Via == "import" {
			return fmt.Sprintf("{{block who()}}T:%s{{end}}", p)
		}
		return "T:" + p
	}
	files := map[string]string{long + "/r.jet": ref(n1), short + "/r.jet": ref(n2), t1 + ".jet": body(t1), t2 + ".jet": body(t2)}
	if short == "/" {
		files["/r.jet"] = ref(n2)
		delete(files, "//r.jet")
	}
	first, second := long+"/r", normPath(short+"/r")
	want := "T:" + t1 + "|T:" + t2
	if c.Pair[2] == "short-first" {
		first, second = second, first
		want = "T:" + t2 + "|T:" + t1
	}
	files["/pair/entry.jet"] = fmt.Sprintf("{{include %q}}|{{include %q}}", first, second)
	v.NonTrivial = t1 != t2
	v.Label("prefix-pair:"+c.Via, "pair-order:"+c.Pair[2])
	s, _ := jetrun.NewSet(files)
	t, o := jetrun.Get(s, "/pair/entry")
	if !o.Failed() {
		o = jetrun.Exec(t, nil, nil)
	}
	if o.Failed() || o.Out != want {
		v.Failf("templates %q: executing /pair/entry must render %q (every relative name means the file next to the template that uses it), got %s", files, want, o)
	}
	return
}

// judgeC15Content: see c15Case.Content.
func judgeC15Content(c c15Case) (v core.Verdict) {
	want := "T:" + normPath("/pages/"+c.Spelling)
	files := map[string]string{
		"/pages/part.jet": "T:/pages/part", "/pages/sub/part.jet": "T:/pages/sub/part",
		// decoys next to the templates that define the blocks
		"/lib/part.jet": "T:/lib/part", "/lib/sub/part.jet": "T:/lib/sub/part", "/lay/part.jet": "T:/lay/part", "/lay/sub/part.jet": "T:/lay/sub/part", "/part.jet": "T:/part", "/sub/part.jet": "T:/sub/part",
		"/lib/frames.jet": `{{block frame()}}<f>{{yield content}}</f>{{end}}{{block outer()}}<o>{{yield frame() content}}[{{yield content}}]{{end}}</o>{{end}}`,
		"/lay/l.jet":      `<l>{{block frame()}}<f>{{yield content}}</f>{{end}}{{block main()}}default{{end}}</l>`,
	}
	inc := fmt.Sprintf("{{include %q}}", c.Spelling)
	switch c.Content {
	case "imported":
		files["/pages/p.jet"] = `{{import "/lib/frames.jet"}}{{yield frame() content}}` + inc + `{{end}}`
		want = "<f>" + want + "</f>"
	case "imported-nested": // the content is handed on by a block of the library to another one
		files["/pages/p.jet"] = `{{import "/lib/frames.jet"}}{{yield outer() content}}` + inc + `{{end}}`
		want = "<o><f>[" + want + "]</f></o>"
	case "layout":
		files["/pages/p.jet"] = `{{extends "/lay/l.jet"}}{{block main()}}{{yield frame() content}}` + inc + `{{end}}{{end}}`
		want = "<l><f></f><f>" + want + "</f></l>"
	default: // no content involved: an overriding block is written in the page, not in the layout
		files["/pages/p.jet"] = `{{extends "/lay/l.jet"}}{{block main()}}` + inc + `{{end}}`
		want = "<l><f></f>" + want + "</l>"
	}
	v.NonTrivial = true
	v.Label("include-in-content:" + c.Content)
	s, _ := jetrun.NewSet(files)
	t, o := jetrun.Get(s, "/pages/p")
	if !o.Failed() {
		o = jetrun.Exec(t, nil, nil)
	}
	if o.Failed() || o.Out != want {
		v.Failf("templates %q: executing /pages/p must render %q (an include belongs to the template it is written in, whoever renders the content), got %s", files, want, o)
	}
	return
}

func judgeC15(c c15Case) (v core.Verdict) {
	if c.Content != "" {
		return judgeC15Content(c)
	}
	if len(c.Pair) == 3 {
		return judgeC15Pair(c)
	}
	if c.Via == "get" && len(c.Others) > 0 {
		return judgeC15Concurrent(c)
	}
	canon := c.canonical(c.Spelling)
	if canon != c.canonical(c.Alt) {
		panic("respell changed the canonical form: " + c.Spelling + " vs " + c.Alt)
	}
	target := canon + c.Ext
	if target == c.referrerFile() || canon == c.referrer() || strings.HasPrefix(c.referrerFile(), target+"/") && c.OS || strings.HasPrefix(target, c.referrerFile()+"/") && c.OS {
		v.Discard = "target-collides-with-referrer"
		return
	}
	if c.OS && target == "/" {
		v.Discard = "root-as-file"
		return
	}
	tmp := ""
	if c.OS {
		var err error
		tmp, err = os.MkdirTemp(core.OutDir(), "c15-")
		if err != nil {
			panic(err)
		}
		defer os.RemoveAll(tmp)
	}
	dots := strings.Count(c.Spelling, "..")
	v.NonTrivial = (c.Spelling != canon && c.Depth >= 1) || dots > c.Depth
	v.Label("via:"+c.Via, fmt.Sprintf("depth:%d", c.Depth))
	if c.OS {
		v.Label("os-loader")
	}
	if c.Hop != "" {
		v.Label("hop:" + c.Hop)
	}
	if c.Missing {
		v.Label("target-missing")
	}
	if c.ParseAs != "" {
		v.Label("referrer-handed-to-Set.Parse")
	}
	if c.Twin {
		v.Label("same-spelling-included-from-two-directories")
		tt := c.twinCanonical(c.Spelling) + c.Ext
		last := c.Exts[len(c.Exts)-1]
		for _, other := range []string{c.referrerFile(), c15TwinRef + last, c15Entry + last} {
			if tt == other || target == other || strings.HasPrefix(other, tt+"/") || strings.HasPrefix(other, target+"/") {
				v.Discard = "twin-target-collides-with-a-referrer"
				return
			}
		}
	}
	if strings.Contains(c.Spelling, "\\") {
		v.Label("backslash-in-name")
	}
	if dots > c.Depth {
		v.Label("more-dotdot-than-depth")
	}
	allowed := map[string]bool{}
	for _, e := range c.Exts {
		allowed[canon+e] = true
		allowed[c.referrer()+e] = true
		if c.Hop != "" || c.Twin {
			allowed[c15Entry+e] = true
		}
		if c.Twin {
			allowed[c15TwinRef+e] = true
			allowed[c.twinCanonical(c.Spelling)+e] = true
		}
	}
	check := func(spelling, sub string) (trace []traceEv, ok bool) {
		d := tmp
		if c.OS {
			d = filepath.Join(tmp, sub)
		}
		trace, out, names, outside := c.run(spelling, d)
		desc := fmt.Sprintf("%s %q from %s (exts %q, target file %s)", c.Via, spelling, c.referrer(), c.Exts, target)
		if c.Hop != "" {
			desc += fmt.Sprintf(", the referrer itself reached from %s by %s", c15Entry, c.Hop)
		}
		if outside {
			v.Failf("%s: content from outside the loader's root directory was rendered: %q", desc, out.Out)
			return trace, false
		}
		exists := map[string]bool{}
		for _, ev := range trace {
			if !cleanAbs(ev.Path) {
				v.Failf("%s: %s received the path %q, which is not a clean absolute slash path (trace %v)", desc, ev.Op, ev.Path, trace)
				return trace, false
			}
			bareCacheKey := (ev.Op == "Get" || ev.Op == "Put") && (ev.Path == canon || ev.Path == c.referrer() || (c.Hop != "" || c.Twin) && ev.Path == c15Entry || c.Twin && (ev.Path == c15TwinRef || ev.Path == c.twinCanonical(c.Spelling)))
			if !allowed[ev.Path] && !bareCacheKey {
				v.Failf("%s: %s received %q; expected the canonical name %q (or the referrer) plus a configured extension (trace %v)", desc, ev.Op, ev.Path, canon, trace)
				return trace, false
			}
			if ev.Op == "Exists" && ev.OK {
				exists[ev.Path] = true
			}
			if ev.Op == "Open" && !exists[ev.Path] {
				v.Failf("%s: Open(%q) without a preceding successful Exists (trace %v)", desc, ev.Path, trace)
				return trace, false
			}
		}
		if c.Missing {
			// nothing to render: the lookup fails, except for includeIfExists, which renders nothing instead
			if out.Panicked {
				v.Failf("%s (target missing): panicked: %s", desc, out.PanicVal)
				return trace, false
			}
			if c.Via == "includeIfExists" && c.Hop == "" && out.Failed() {
				v.Failf("%s (target missing): includeIfExists of a missing template must not fail: %s (trace %v)", desc, out, trace)
				return trace, false
			}
			if c.Via != "includeIfExists" && !out.Failed() {
				v.Failf("%s (target missing): rendered %q although no file exists under the canonical name (trace %v)", desc, out.Out, trace)
				return trace, false
			}
			return trace, true
		}
		if out.Failed() {
			v.Failf("%s: failed although the target exists at the canonical path: %s (trace %v)", desc, out, trace)
			return trace, false
		}
		wantOut := c.wantOut()
		if c.Twin {
			second := "TWIN"
			if c.twinCanonical(spelling) == canon {
				second = "TARGET"
			}
			wantOut = "[TARGET]|[" + second + "]"
		}
		if out.Out != wantOut {
			v.Failf("%s: rendered %q, want %q", desc, out.Out, wantOut)
			return trace, false
		}
		for _, n := range names {
			if !cleanAbs(n) {
				v.Failf("%s: Template.Name %q is not clean", desc, n)
				return trace, false
			}
		}
		return trace, true
	}
	t1, ok := check(c.Spelling, "s1")
	if !ok {
		return
	}
	t2, ok := check(c.Alt, "s2")
	if !ok {
		return
	}
	if fmt.Sprint(t1) != fmt.Sprint(t2) {
		v.Failf("%s: spellings %q and %q name the same template but produce different loader/cache requests:\n%v\n%v", c.Via, c.Spelling, c.Alt, t1, t2)
	}
	return
}

func TestC15(t *testing.T) {
	core.Run(t, "C15",
		"name spellings from segments {a,b,tpl.jet,d1,d2,.,..,''} with/without leading and trailing slash, used via GetTemplate/extends/import/include (static and computed)/exec/includeIfExists from a referrer at directory depth 0-3, eight extension lists (dotted and dotless entries), in-memory loader or OSFileSystemLoader with marker files outside its root; recording Loader and Cache wrappers; plus a second spelling of the same canonical name; two referrers whose directories are string prefixes of one another (/d1 + x and /d + 1x) in one Set; includes written in yield content handed to a block that another directory defines; via GetTemplate also 3-5 names looked up at the same time by two goroutines each on one Set; also: segments that only look special ('...', '....', '. .', a trailing dot or blank, control characters); round 10: an OS loader probed with names that begin with its root directory's own path (a sibling directory with the same prefix); non-trivial = spelling differs from its canonical form at referrer depth>=1, or has more '..' than the depth",
		genC15, judgeC15)
}

func TestC15Replay(t *testing.T) { core.Replay(t, "C15", judgeC15) }
