package checks

// C16 — cache coherence: identical hits without touching the loader, failures
// never cached, development mode reloads, Set.Parse caches nothing, candidate
// extensions probed strictly in order.
//
// Histories of loader edits, injected loader faults, GetTemplate, Set.Parse
// and Execute over a small pool of names; the oracle is a model of what must
// (and what may) be remembered, asserted on recorded Loader/Cache traces.

import (
	"errors"
	"fmt"
	"io"
	"strings"
	"sync"
	"testing"

	"jetverif/core"
	"jetverif/jetrun"

	"github.com/CloudyKit/jet/v6"
	"pgregory.net/rapid"
)

type c16Op struct {
	Op      string `json:"op"` // set | delete | fault | clear | get | parse | exec
	Name    int    `json:"name"`
	Ext     int    `json:"ext,omitempty"`
	Variant string `json:"variant,omitempty"` // text | bad | ext | inc (set) ; open | read (fault)
	Dep     int    `json:"dep,omitempty"`     // target of extends/include
	// Self (parse): the source is handed to Set.Parse a second time, under the very name of the template it
	// extends / imports (an override of the stored template): same outcome as under any other name
	Self bool `json:"self,omitempty"`
}

type c16Case struct {
	Dev      bool     `json:"dev"`
	RecCache bool     `json:"rec_cache"`
	Exts     []string `json:"exts"`
	Ops      []c16Op  `json:"ops"`
	// ForeignCache (with RecCache): before the history starts the Cache object already holds templates under
	// the names of this case, put there by somebody else (another Set sharing the Cache, the application).
	// Development mode must not serve them; otherwise they are hits like any other.
	ForeignCache bool `json:"foreign_cache,omitempty"`
	// Refusing (with RecCache, not in development mode): the Cache admits nothing (a full cache, one that only
	// admits what it likes): Put is recorded and dropped, Get finds nothing. Every lookup is then a cold one that
	// still answers with a template or an error.
	Refusing bool `json:"refusing,omitempty"`
	// DevOpts: how the development mode setting is spelt in the option list (0: DevelopmentMode(dev); 1: InDevelopmentMode()
	// or nothing; 2 / 3: given twice with contradicting values, the later one counts)
	DevOpts int `json:"dev_opts,omitempty"`
	// SecondSet (with RecCache, outside development mode, cache admits): after the history a second Set over the
	// same Loader and the same Cache object asks for what the first one has remembered
	SecondSet bool `json:"second_set,omitempty"`
}

// (indices are part of saved cases: append only) - the last name itself ends in what may be a configured extension
var c16Names = []string{"/a", "/b", "/sub/c", "/d", "/e.jet", "/B", "/Sub/c",
	// (not generated, see c16Pool: "/a" plus part of a configured extension; only the listed finding
	// c16-cached-later-extension uses it)
	"/a.html"}

// c16Pool: the names histories are generated from. No name of the pool is the beginning of another one: with names
// that are related through the extension list ("/a" and "/a.html" under ".jet" / ".html.jet") a template cached for
// the one answers lookups of the other (the cache is probed under every candidate before the loader is asked) -
// the listed finding.
const c16Pool = 7

// c16Own: path is name itself or name plus a suffix (an extension, dotted or not); no name of the pool is the
// beginning of another one
func c16Own(path, name string) bool {
	return strings.HasPrefix(path, name) && !strings.Contains(path[len(name):], "/")
}

type c16File struct {
	variant string
	dep     int
	version int
}

func (f c16File) source() string {
	switch f.variant {
	case "bad":
		return "{{if}}"
	case "ext":
		return fmt.Sprintf(`{{extends %q}}`, c16Names[f.dep])
	case "inc":
		return fmt.Sprintf(`I%d[{{include %q}}]`, f.version, c16Names[f.dep])
	case "iie":
		return fmt.Sprintf(`X%d[{{if includeIfExists(%q)}}+{{else}}-{{end}}]`, f.version, c16Names[f.dep])
	case "iief": // the same, and then the execution fails
		return fmt.Sprintf(`F%d[{{if includeIfExists(%q)}}+{{else}}-{{end}}]{{ noSuchVariable }}`, f.version, c16Names[f.dep])
	}
	return fmt.Sprintf("T%d", f.version)
}

type faultLoader struct {
	files  map[string]c16File
	faults map[string]string
	trace  *[]traceEv
}

type failingReader struct{ data []byte }

func (r *failingReader) Read(p []byte) (int, error) {
	if len(r.data) > 0 {
		n := copy(p, r.data[:1])
		r.data = r.data[n:]
		return n, nil
	}
	return 0, errors.New("injected read failure")
}
func (r *failingReader) Close() error { return nil }

func (l *faultLoader) Exists(p string) bool {
	_, ok := l.files[p]
	*l.trace = append(*l.trace, traceEv{"Exists", p, ok})
	return ok
}

func (l *faultLoader) Open(p string) (io.ReadCloser, error) {
	f, ok := l.files[p]
	*l.trace = append(*l.trace, traceEv{"Open", p, ok})
	if !ok {
		return nil, fmt.Errorf("%s does not exist", p)
	}
	switch l.faults[p] {
	case "open":
		return nil, errors.New("injected open failure")
	case "read":
		return &failingReader{data: []byte(f.source())}, nil
	}
	return io.NopCloser(strings.NewReader(f.source())), nil
}

func genC16(t *rapid.T) c16Case {
	c := c16Case{}
	c.Dev = rapid.IntRange(0, 3).Draw(t, "dev") == 0
	c.RecCache = rapid.Bool().Draw(t, "recCache")
	c.Exts = c15ExtLists[rapid.IntRange(0, len(c15ExtLists)-1).Draw(t, "exts")]
	c.ForeignCache = c.Dev && c.RecCache && rapid.Bool().Draw(t, "foreignCache")
	c.Refusing = !c.Dev && c.RecCache && rapid.IntRange(0, 3).Draw(t, "refusingCache") == 0
	c.DevOpts = rapid.IntRange(0, 3).Draw(t, "devOptionSpelling")
	c.SecondSet = !c.Dev && c.RecCache && !c.Refusing && rapid.Bool().Draw(t, "secondSetOnTheSameCache")
	n := rapid.IntRange(2, 20).Draw(t, "nops")
	lastExec := -1
	for i := 0; i < n; i++ {
		op := c16Op{Name: rapid.IntRange(0, c16Pool-1).Draw(t, "name")}
		k := rapid.IntRange(0, 15).Draw(t, "op")
		if i < 3 && k > 8 {
			k = 0 // histories start with a few files in place
		}
		switch {
		case k <= 3:
			op.Op = "set"
			op.Ext = rapid.IntRange(0, len(c.Exts)-1).Draw(t, "ext")
			op.Variant = rapid.SampledFrom([]string{"text", "text", "text", "bad", "ext", "inc", "iie", "iief"}).Draw(t, "variant")
			if op.Variant == "ext" || op.Variant == "inc" || op.Variant == "iie" || op.Variant == "iief" {
				if op.Name == c16Pool-1 {
					op.Variant = "text"
				} else {
					op.Dep = rapid.IntRange(op.Name+1, c16Pool-1).Draw(t, "dep") // acyclic by construction
				}
			}
		case k == 4:
			op.Op = "delete"
			op.Ext = rapid.IntRange(0, len(c.Exts)-1).Draw(t, "ext")
		case k == 5:
			op.Op = "fault"
			op.Ext = rapid.IntRange(0, len(c.Exts)-1).Draw(t, "ext")
			op.Variant = rapid.SampledFrom([]string{"open", "read"}).Draw(t, "fault")
		case k == 6:
			op.Op = "clear"
			op.Ext = rapid.IntRange(0, len(c.Exts)-1).Draw(t, "ext")
		case k <= 12:
			op.Op = "get"
		case k == 13:
			op.Op = "parse"
			op.Variant = rapid.SampledFrom([]string{"ext", "import", "text", "ext-rel", "import-rel"}).Draw(t, "parsevariant")
			op.Dep = rapid.IntRange(0, c16Pool-1).Draw(t, "dep")
			op.Self = (op.Variant == "ext" || op.Variant == "import") && rapid.IntRange(0, 2).Draw(t, "parseUnderOwnName") == 0
		case k == 14:
			op.Op = "exec"
			lastExec = op.Name
		default:
			// execute again the template object an earlier get / exec of this name returned
			op.Op = "reexec"
			if lastExec >= 0 && rapid.IntRange(0, 3).Draw(t, "reexecLastExecuted") > 0 {
				op.Name = lastExec
			}
		}
		c.Ops = append(c.Ops, op)
	}
	return c
}

const (
	stNot = iota
	stMaybe
	stCached
)

type c16Model struct {
	c      c16Case
	files  map[string]c16File
	faults map[string]string
	status []int
	ptr    []*jet.Template
	indet  bool // set by render: the outcome depends on something the property leaves open
}

// cold predicts a load from the loader: ok / determinate, and marks what may get cached on the way.
func (m *c16Model) cold(n int, viaGet bool, touched map[int]bool) (ok, det bool) {
	for _, e := range m.c.Exts {
		p := c16Names[n] + e
		f, exists := m.files[p]
		if !exists {
			continue
		}
		if m.faults[p] != "" || f.variant == "bad" {
			return false, true
		}
		if f.variant == "ext" {
			switch {
			case !m.c.Dev && m.status[f.dep] == stCached:
			case !m.c.Dev && m.status[f.dep] == stMaybe:
				// undetermined whether the dependency is cached; if it is not, loading it pulls in its own dependencies
				touched[f.dep] = true
				m.cold(f.dep, viaGet, touched)
				return false, false
			default:
				// whatever the outcome further down, the dependency may have been loaded (and cached) on the way
				touched[f.dep] = true
				dok, ddet := m.cold(f.dep, viaGet, touched)
				if !ddet {
					return false, false
				}
				if !dok {
					return false, true
				}
			}
		}
		return true, true
	}
	return false, true
}

// render predicts the output of executing name n freshly loaded (development mode only).
func (m *c16Model) render(n int, depth int) (string, bool) {
	if depth > 6 {
		return "", false
	}
	for _, e := range m.c.Exts {
		p := c16Names[n] + e
		f, exists := m.files[p]
		if !exists {
			continue
		}
		if m.faults[p] != "" || f.variant == "bad" {
			return "", false
		}
		switch f.variant {
		case "ext":
			return m.render(f.dep, depth+1)
		case "inc":
			s, ok := m.render(f.dep, depth+1)
			if !ok {
				return "", false
			}
			return fmt.Sprintf("I%d[%s]", f.version, s), true
		case "iief":
			if df, ok := m.currentPath(f.dep); ok && m.faults[df] != "" {
				m.indet = true
			}
			return "", false // whatever it finds, this one fails when it is executed
		case "iie":
			if !m.exists(f.dep) {
				return fmt.Sprintf("X%d[-]", f.version), true
			}
			if df, _ := m.currentPath(f.dep); m.faults[df] != "" {
				// the file is there but cannot be opened / read: whether that counts as "exists" is left open
				m.indet = true
			}
			s, ok := m.render(f.dep, depth+1)
			if !ok {
				return "", false // it exists but cannot be rendered: an error, not "missing"
			}
			return fmt.Sprintf("X%d[%s+]", f.version, s), true
		}
		return fmt.Sprintf("T%d", f.version), true
	}
	return "", false
}

// exists: some candidate file of name n is in the loader.
func (m *c16Model) exists(n int) bool {
	for _, e := range m.c.Exts {
		if _, ok := m.files[c16Names[n]+e]; ok {
			return true
		}
	}
	return false
}

// currentPath is the path a lookup of name n finds right now.
func (m *c16Model) currentPath(n int) (string, bool) {
	for _, e := range m.c.Exts {
		if _, ok := m.files[c16Names[n]+e]; ok {
			return c16Names[n] + e, true
		}
	}
	return "", false
}

// current is the file a lookup of name n finds right now.
func (m *c16Model) current(n int) (c16File, bool) {
	for _, e := range m.c.Exts {
		if f, ok := m.files[c16Names[n]+e]; ok {
			return f, true
		}
	}
	return c16File{}, false
}

func judgeC16(c c16Case) (v core.Verdict) {
	var trace []traceEv
	fl := &faultLoader{files: map[string]c16File{}, faults: map[string]string{}, trace: &trace}
	opts := []jet.Option{jet.WithTemplateNameExtensions(c.Exts)}
	switch c.DevOpts {
	case 1:
		if c.Dev {
			opts = append(opts, jet.InDevelopmentMode())
		}
	case 2:
		if c.Dev {
			opts = append(opts, jet.DevelopmentMode(false), jet.InDevelopmentMode())
		} else {
			opts = append(opts, jet.InDevelopmentMode(), jet.DevelopmentMode(false))
		}
	case 3:
		opts = append(opts, jet.DevelopmentMode(!c.Dev), jet.DevelopmentMode(c.Dev))
	default:
		opts = append(opts, jet.DevelopmentMode(c.Dev))
	}
	var rc *recCache
	if c.RecCache {
		rc = &recCache{mu: new(sync.Mutex), m: map[string]*jet.Template{}, trace: &trace, refuse: c.Refusing}
		opts = append(opts, jet.WithCache(rc))
		if c.Refusing {
			v.Label("cache-that-admits-nothing")
		}
	}
	s := jet.NewSet(fl, opts...)
	if c.ForeignCache {
		// parsed by another Set from sources this loader never had
		other := jet.NewSet(jet.NewInMemLoader())
		for _, n := range c16Names {
			for _, e := range c.Exts {
				if ft, err := other.Parse(n+e, "FOREIGN "+n+e); err == nil {
					rc.m[n+e] = ft
				}
			}
		}
		v.Label("cache-pre-filled-by-someone-else")
	}
	m := &c16Model{c: c, files: fl.files, faults: fl.faults, status: make([]int, len(c16Names)), ptr: make([]*jet.Template, len(c16Names))}
	version := 0
	type heldTpl struct {
		t *jet.Template
		f c16File
	}
	held := map[int]heldTpl{} // development mode: template objects the application kept, and the file they were parsed from
	gets := make([]int, len(c16Names))
	editAfterLoad, faultRepairLookup := false, false
	faulted := map[int]bool{}
	v.Label(fmt.Sprintf("dev:%v", c.Dev), fmt.Sprintf("reccache:%v", c.RecCache), fmt.Sprintf("exts:%d", len(c.Exts)))
	hist := func(i int) string {
		return fmt.Sprintf("config dev=%v recCache=%v exts=%q; history %+v", c.Dev, c.RecCache, c.Exts, c.Ops[:i+1])
	}
	loaderEvents := func() (evs []traceEv) {
		for _, e := range trace {
			if e.Op == "Exists" || e.Op == "Open" {
				evs = append(evs, e)
			}
		}
		return
	}
	puts := func() (n int) {
		for _, e := range trace {
			if e.Op == "Put" {
				n++
			}
		}
		return
	}
	for i, op := range c.Ops {
		trace = trace[:0]
		name := c16Names[op.Name]
		switch op.Op {
		case "set":
			version++
			fl.files[name+c.Exts[op.Ext]] = c16File{variant: op.Variant, dep: op.Dep, version: version}
			if m.status[op.Name] != stNot {
				editAfterLoad = true
			}
		case "delete":
			delete(fl.files, name+c.Exts[op.Ext])
			if m.status[op.Name] != stNot {
				editAfterLoad = true
			}
		case "fault":
			fl.faults[name+c.Exts[op.Ext]] = op.Variant
			faulted[op.Name] = true
		case "clear":
			delete(fl.faults, name+c.Exts[op.Ext])
		case "parse":
			src := "P"
			switch op.Variant {
			case "ext":
				src = fmt.Sprintf(`{{extends %q}}`, c16Names[op.Dep])
			case "import":
				src = fmt.Sprintf(`{{import %q}}P`, c16Names[op.Dep])
			case "ext-rel": // the name handed to Parse and the name it refers to are both relative (to the root)
				src = fmt.Sprintf(`{{extends %q}}`, c16Names[op.Dep][1:])
			case "import-rel":
				src = fmt.Sprintf(`{{import %q}}P`, "./"+c16Names[op.Dep][1:])
			}
			parseName := "/parsed.jet"
			if strings.HasSuffix(op.Variant, "-rel") {
				parseName = "parsed.jet"
				v.Label("parse-under-a-relative-name")
			}
			_, o := jetrun.Parse(s, parseName, src)
			if o.Panicked {
				v.Failf("%s: Set.Parse panicked: %s", hist(i), o)
				return
			}
			if puts() > 0 {
				v.Failf("%s: Set.Parse stored something in the cache: %v", hist(i), trace)
				return
			}
			if op.Self {
				selfName := c16Names[op.Dep] + c.Exts[0]
				if p, ok := m.currentPath(op.Dep); ok {
					selfName = p
				}
				_, so := jetrun.Parse(s, selfName, src)
				if so.Panicked || (so.Err == nil) != (o.Err == nil) {
					v.Failf("%s: Set.Parse of %q under the name /parsed.jet gave err=%v, under the name %s (the template it refers to) %s", hist(i), src, o.Err, selfName, so)
					return
				}
				if puts() > 0 {
					v.Failf("%s: Set.Parse stored something in the cache: %v", hist(i), trace)
					return
				}
				v.Label("parse-under-the-name-of-the-template-it-extends")
			}
			if !c.Dev && op.Variant != "text" && m.status[op.Dep] == stCached {
				// what Parse extends / imports is looked up like any other name: a cached template is used as it is
				dn := c16Names[op.Dep]
				for _, e := range loaderEvents() {
					if c16Own(e.Path, dn) {
						v.Failf("%s: %s is cached, but Set.Parse of a template that refers to it (%s) asked the loader for it: %v", hist(i), dn, op.Variant, loaderEvents())
						return
					}
				}
				if o.Err != nil {
					v.Failf("%s: %s is cached, but Set.Parse of a template that refers to it (%s) failed: %v", hist(i), dn, op.Variant, o.Err)
					return
				}
				v.Label("parse-referencing-cached-template")
			}
			// with the default cache the same claim is checked behaviourally: statuses stay as they are,
			// so a later lookup of a not-cached name must go to the loader again
		case "reexec":
			h, ok := held[op.Name]
			if !ok || !(c.Dev || c.Refusing) || (h.f.variant != "inc" && h.f.variant != "iie" && h.f.variant != "text") {
				continue
			}
			v.Label("reexec-held-template:" + h.f.variant)
			// the held object is the source it was parsed from; what it includes is looked up when it runs,
			// in development mode from the loader as it is now
			want, wok := fmt.Sprintf("T%d", h.f.version), true
			m.indet = false
			switch h.f.variant {
			case "inc":
				s, ok := m.render(h.f.dep, 1)
				want, wok = fmt.Sprintf("I%d[%s]", h.f.version, s), ok
			case "iie":
				if !m.exists(h.f.dep) {
					want = fmt.Sprintf("X%d[-]", h.f.version)
				} else {
					if df, _ := m.currentPath(h.f.dep); m.faults[df] != "" {
						m.indet = true
					}
					s, ok := m.render(h.f.dep, 1)
					want, wok = fmt.Sprintf("X%d[%s+]", h.f.version, s), ok
				}
			}
			eo := jetrun.Exec(h.t, nil, nil)
			if m.indet {
				if eo.Panicked {
					v.Failf("%s: Execute of the held template %s panicked: %s", hist(i), name, eo)
					return
				}
				continue
			}
			if eo.Panicked {
				v.Failf("%s: Execute of the held template %s panicked: %s", hist(i), name, eo)
				return
			}
			if wok && (eo.Err != nil || eo.Out != want) {
				v.Failf("%s: development mode: executing the template object obtained earlier for %s must render what it includes from the loader as it is now: want %q, got %s", hist(i), name, want, eo)
				return
			}
			if !wok && eo.Err == nil {
				v.Failf("%s: development mode: what the held template %s includes cannot be rendered from the current files, yet Execute succeeded with %q", hist(i), name, eo.Out)
				return
			}
		case "get", "exec":
			gets[op.Name]++
			if faulted[op.Name] && fl.faults[name+c.Exts[0]] == "" {
				faultRepairLookup = true
			}
			st := m.status[op.Name]
			touched := map[int]bool{}
			wantOK, det := false, false
			if c.Dev || st != stCached {
				// also for "maybe cached" names: whatever a cold load would pull in may get cached
				wantOK, det = m.cold(op.Name, true, touched)
			}
			t, o := jetrun.Get(s, name)
			if o.Panicked {
				v.Failf("%s: GetTemplate panicked: %s", hist(i), o)
				return
			}
			if o.Err == nil && t == nil {
				v.Failf("%s: GetTemplate(%s) returned neither a template nor an error", hist(i), name)
				return
			}
			le := loaderEvents()
			switch {
			case c.Dev:
				v.Label("get:dev")
				if len(le) == 0 {
					v.Failf("%s: development mode lookup of %s did not touch the loader", hist(i), name)
					return
				}
				if puts() > 0 {
					v.Failf("%s: development mode stored a template in the cache: %v", hist(i), trace)
					return
				}
			case st == stCached:
				v.Label("get:expected-hit")
				if o.Err != nil || t != m.ptr[op.Name] {
					v.Failf("%s: %s was loaded successfully before, but asking again gave err=%v identical=%v", hist(i), name, o.Err, t == m.ptr[op.Name])
					return
				}
				if len(le) > 0 {
					v.Failf("%s: cache hit for %s still touched the loader: %v", hist(i), name, le)
					return
				}
			case st == stMaybe:
				v.Label("get:maybe-cached")
			default:
				v.Label("get:cold")
			}
			if c.Dev || st == stNot {
				// cold lookups probe the candidates strictly in order and open exactly the first hit
				var own []traceEv
				for _, e := range le {
					if c16Own(e.Path, name) {
						own = append(own, e)
					}
				}
				k := 0
				for _, e := range c.Exts {
					p := name + e
					if k >= len(own) || own[k].Op != "Exists" || own[k].Path != p {
						v.Failf("%s: cold lookup of %s must probe the loader with Exists(%q) at this point (extension order %q); loader events for it: %v", hist(i), name, p, c.Exts, own)
						return
					}
					k++
					if own[k-1].OK {
						if k >= len(own) || own[k].Op != "Open" || own[k].Path != p {
							v.Failf("%s: %s exists, so exactly that path must be opened next; events: %v", hist(i), p, own)
							return
						}
						k++
						break
					}
				}
				if k != len(own) {
					v.Failf("%s: lookup of %s continued after the first existing candidate: %v", hist(i), name, own)
					return
				}
				if det && wantOK != (o.Err == nil) {
					v.Failf("%s: lookup of %s: want success=%v, got err=%v", hist(i), name, wantOK, o.Err)
					return
				}
			}
			if o.Err != nil {
				if rc != nil && puts() > 0 && !c.Dev {
					// only templates pulled in on the way (and loaded fine) may have been stored, never the failed one
					for _, e := range trace {
						if e.Op == "Put" && c16Own(e.Path, name) {
							v.Failf("%s: failed lookup of %s stored it in the cache: %v", hist(i), name, trace)
							return
						}
					}
				}
				if !c.Dev && st != stCached {
					m.status[op.Name] = stNot
				}
			} else if c.Refusing {
				// nothing was admitted: the next lookup is as cold as this one (the application may keep the object)
				if f, ok := m.current(op.Name); ok {
					held[op.Name] = heldTpl{t, f}
				}
			} else if !c.Dev {
				m.status[op.Name] = stCached
				m.ptr[op.Name] = t
			} else if f, ok := m.current(op.Name); ok {
				held[op.Name] = heldTpl{t, f}
			}
			if !c.Dev && !c.Refusing {
				for d := range touched {
					if m.status[d] == stNot {
						m.status[d] = stMaybe
					}
				}
			}
			if op.Op == "exec" && o.Err == nil {
				m.indet = false
				want, wok := m.render(op.Name, 0)
				trace = trace[:0]
				eo := jetrun.Exec(t, nil, nil)
				if eo.Panicked {
					v.Failf("%s: Execute panicked: %s", hist(i), eo)
					return
				}
				if (c.Dev || c.Refusing) && m.indet {
					v.Label("exec:outcome-left-open")
				} else if c.Dev || c.Refusing {
					// (a cache that admits nothing makes every lookup a fresh load, like development mode)
					if c.Dev && puts() > 0 {
						v.Failf("%s: development mode stored a template in the cache during Execute: %v", hist(i), trace)
						return
					}
					if wok && (eo.Err != nil || eo.Out != want) {
						v.Failf("%s: development mode must render the latest edit %q, got %s", hist(i), want, eo)
						return
					}
					if !wok && eo.Err == nil {
						v.Failf("%s: development mode: the current files cannot render %s, yet Execute succeeded with %q", hist(i), name, eo.Out)
						return
					}
				} else {
					// names that are known to be cached are served from the cache at run time too
					// (include, includeIfExists): no loader traffic for them
					for d, dn := range c16Names {
						if m.status[d] != stCached {
							continue
						}
						for _, e := range loaderEvents() {
							if c16Own(e.Path, dn) {
								v.Failf("%s: %s is cached, but executing %s asked the loader for it: %v", hist(i), dn, name, loaderEvents())
								return
							}
						}
					}
					// an include resolved at run time may cache its target: be conservative
					if !c.Refusing {
						m.markIncludes(op.Name, 0)
					}
				}
			}
		}
	}
	if c.SecondSet {
		// what one Set has remembered in a Cache it shares is remembered: a second Set over the same Loader and Cache
		// finds it there, and the first one still finds it afterwards (neither touches the loader)
		s2 := jet.NewSet(fl, opts...)
		for n, name := range c16Names {
			if m.status[n] != stCached {
				continue
			}
			v.Label("second-set-asks-for-a-remembered-name")
			for round, set := range []*jet.Set{s2, s, s2} {
				trace = trace[:0]
				t, o := jetrun.Get(set, name)
				if o.Panicked || o.Err != nil || t != m.ptr[n] {
					v.Failf("%s; then lookup %d of %s through the Sets sharing the Cache: err=%v identical=%v", hist(len(c.Ops)-1), round, name, o.Err, t == m.ptr[n])
					return
				}
				if le := loaderEvents(); len(le) > 0 || puts() > 0 {
					v.Failf("%s; then lookup %d of %s through the Sets sharing the Cache touched the loader / stored again: %v", hist(len(c.Ops)-1), round, name, trace)
					return
				}
			}
		}
	}
	if !c.Dev && !c.RecCache {
		// the default cache remembers every template, also two whose paths happen to collide under a 32-bit hash
		// (FNV-1a of "/products/380395.jet" and of "/products/1223110.jet" are equal)
		spell := func(p string) (string, bool) {
			for _, e := range c.Exts {
				if e == "" {
					return p + ".jet", true
				}
				if e == ".jet" {
					return p, true
				}
			}
			return "", false
		}
		if na, ok := spell("/products/380395"); ok {
			nb, _ := spell("/products/1223110")
			fl.files["/products/380395.jet"] = c16File{variant: "text", version: 9001}
			fl.files["/products/1223110.jet"] = c16File{variant: "text", version: 9002}
			ta, oa := jetrun.Get(s, na)
			tb, ob := jetrun.Get(s, nb)
			if !oa.Failed() && !ob.Failed() {
				v.Label("two-paths-with-equal-32-bit-hashes")
				for round, nm := range []string{na, nb, na} {
					trace = trace[:0]
					t, o := jetrun.Get(s, nm)
					want := ta
					if nm == nb {
						want = tb
					}
					if o.Failed() || t != want || len(loaderEvents()) > 0 {
						v.Failf("%s; then %s and %s were loaded, and lookup %d of %s: err=%v identical=%v loader events %v", hist(len(c.Ops)-1), na, nb, round, nm, o.Err, t == want, loaderEvents())
						return
					}
				}
			}
		}
	}
	three := false
	for _, g := range gets {
		if g >= 3 {
			three = true
		}
	}
	v.NonTrivial = editAfterLoad || faultRepairLookup || three
	if editAfterLoad {
		v.Label("edit-after-load")
	}
	if faultRepairLookup {
		v.Label("fault-then-repair-then-lookup")
	}
	if three {
		v.Label("same-name-3x")
	}
	return
}

// markIncludes: executing n may have pulled (and cached) whatever it includes.
func (m *c16Model) markIncludes(n, depth int) {
	if depth > 6 {
		return
	}
	for d := range c16Names {
		if d > n && m.status[d] == stNot {
			m.status[d] = stMaybe
		}
	}
}

func TestC16(t *testing.T) {
	core.Run(t, "C16",
		"histories (2-20 steps) of loader edits (set/delete of name+ext with text/unparsable/extends/include/includeIfExists content), injected loader faults (Open fails, reader fails midway) and repairs, GetTemplate, Set.Parse with extends/import (absolute and relative names; also under the very name of the template it extends), Execute, Execute of a template object kept from an earlier lookup, over 7 names (two pairs differing in case only); configurations development mode x default/recording Cache (also one that admits nothing: Put recorded and dropped) x 8 extension lists (dotted and dotless); also: four spellings of the development mode option (DevelopmentMode(b), InDevelopmentMode() or nothing, and two contradicting ones of which the later counts); a second Set over the same Loader and Cache object asking for what the first one remembered; round 10: a template that asks includeIfExists and then fails when executed; round 11: two paths with equal 32-bit FNV-1a hashes on the default cache; oracle = model of what must/may be remembered asserted on Loader/Cache traces and pointer identity; non-trivial = edit after load, fault-then-repair-then-lookup, or the same name requested >=3 times",
		genC16, judgeC16)
}

func TestC16Replay(t *testing.T) { core.Replay(t, "C16", judgeC16) }
