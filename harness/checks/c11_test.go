package checks

// C11 — a Set and its templates are safe for concurrent use and give serial
// results. The test binary is built with -race (GORACE=halt_on_error=1
// exitcode=66): any report kills the process and is a violation; every
// concurrent Execute must also return exactly what the same call returned
// alone on an identically built private Set.

import (
	"encoding/json"
	"fmt"
	"os"
	"path/filepath"
	"reflect"
	"regexp"
	"runtime"
	"sort"
	"strings"
	"sync"
	"testing"
	"time"

	"jetverif/core"
	"jetverif/jetrun"
	"jetverif/mj"

	"github.com/CloudyKit/jet/v6"
	"pgregory.net/rapid"
)

type c11Op struct {
	Op   string `json:"op"` // exec | get | parse | addglobal | lookupglobal | loaderset | loaderdelete
	Name string `json:"name,omitempty"`
	Data int    `json:"data,omitempty"`
	Arg  string `json:"arg,omitempty"`
}

type c11Case struct {
	Prog    *mj.Program `json:"prog"`
	Dev     bool        `json:"dev"`
	Fields  []string    `json:"fields"` // exported field names of the fresh struct type of this case
	Workers [][]c11Op   `json:"workers"`
	Repeat  int         `json:"repeat"`
	Procs   int         `json:"procs,omitempty"` // GOMAXPROCS while the goroutines run (0 = leave as it is): fewer Ps than goroutines makes them share per-P pool slots
	Src     []string    `json:"src"`
}

// fixed templates that exercise the shared machinery: pooled rangers of every kind,
// the struct-field cache (on a type created for this case), yields, includes, try
func c11Fixed(fields []string) map[string]string {
	acc := ""
	for _, f := range fields {
		acc += "{{ .S." + f + " }}{{ s." + f + " }},"
	}
	return map[string]string{
		"/fx/rangers.jet": `{{ range i, v := xs }}{{ i }}={{ v }};{{ end }}{{ range k, v := m1 }}{{ k }}:{{ v }};{{ end }}{{ range arr }}{{ . }}{{ end }}{{ range i := ints(0, 4) }}{{ i }}{{ end }}{{ range v := slice("a", "b") }}{{ v }}{{ range xs }}.{{ end }}{{ end }}`,
		"/fx/struct.jet":  `[` + acc + `{{ .U.Name }}{{ .U.Greeting() }}{{ len(.U.Tags) }}]`,
		"/fx/blocks.jet":  `{{ import "/fx/lib.jet" }}{{ yield box(title="t") content }}c{{ .U.Name }}{{ end }}{{ include "/fx/part.jet" .U }}{{ try }}{{ noSuchThing }}{{ catch }}caught{{ end }}`,
		"/fx/lib.jet":     `{{ block box(title="d") }}<{{ title }}:{{ yield content }}>{{ end }}`,
		"/fx/part.jet":    `(part {{ .Name }} {{ len(.Tags) }})`,
		"/fx/ext.jet":     `{{ extends "/fx/layout.jet" }}{{ block body() }}ext-body {{ g_read }}{{ end }}`,
		"/fx/layout.jet":  `<layout>{{ block body() }}default{{ end }}</layout>`,
		// a child that only extends and imports (no blocks of its own); the library it imports has a block of the layout's name
		"/fx/child2.jet": `{{ extends "/fx/layout.jet" }}{{ import "/fx/lib2.jet" }}`,
		"/fx/lib2.jet":   `{{ block body() }}body-of-lib2{{ end }}{{ block extra() }}x{{ end }}`,
		"/fx/child3.jet": `{{ extends "/fx/layout.jet" }}`,
		// one type, reached as a value that cannot be addressed and through a pointer: the method sets differ
		"/fx/methods.jet": `{{ mv.Zeta() }}|{{ mp.Zeta() }}|{{ mp.Alpha() }}|{{ mvs[0].Zeta() }}{{ mvs[0].Alpha() }}`,
		// channels (a fresh pair for every execution) between ranges over maps and slices: every kind of pooled cursor
		"/fx/chans.jet": `{{ range ch }}{{ . }},{{ end }}{{ range k, v := m1 }}{{ k }}:{{ v }};{{ end }}{{ range chs }}{{ . }}{{ range k, v := m1 }}{{ k }}{{ end }}{{ end }}{{ range i, v := xs }}{{ v }}{{ end }}{{ range k, v := m0 }}{{ k }}{{ else }}no-m{{ end }}`,
		// descriptions of named variables (globals that no goroutine changes, a block, an unknown name)
		"/fx/dumpnamed.jet": `{{ import "/fx/lib.jet" }}{{ dump("g_read", "xs", "box", "noSuchName") }}{{ dump("arr") }}`,
		// description of everything, globals included: what it prints depends on what has been added so far, so it
		// is executed but not compared
		"/fx/dumpall.jet": `{{ dump() }}{{ dump(1) }}`,
		"/fx/fail.jet":    `before{{ range xs }}{{ .NoField }}{{ end }}after`,
		// ranges that find nothing (else branch) next to ranges over the same kinds that do
		"/fx/emptyrange.jet": `{{ range xs0 }}x{{ else }}no-xs{{ end }}{{ range k, v := m0 }}{{ k }}{{ else }}no-m{{ end }}{{ range i, v := xs }}{{ i }}={{ v }};{{ end }}{{ range k, v := m1 }}{{ k }}:{{ v }};{{ end }}{{ range xs0 }}x{{ else }}{{ range xs }}{{ . }}{{ end }}{{ end }}`,
		// try inside try inside try, each with output of its own that depends on the data
		"/fx/trynest.jet":  `{{ try }}A{{ .U.Name }}{{ try }}B{{ range xs }}{{ . }}{{ end }}{{ try }}C{{ .U.Name }}{{ .U.NoField }}{{ catch }}c{{ end }}{{ .U.Name }}{{ end }}{{ try }}{{ noSuchThing }}{{ catch e }}D{{ try }}E{{ .U.Name }}{{ end }}{{ end }}tail{{ .U.Name }}{{ end }}{{ try }}F{{ include "/fx/part.jet" .U }}{{ end }}`,
		"/fx/tryblock.jet": `{{ import "/fx/lib.jet" }}{{ try }}{{ yield box(title=.U.Name) content }}{{ try }}in{{ .U.Name }}{{ end }}{{ end }}{{ end }}{{ try }}{{ range i := ints(0, 3) }}{{ try }}{{ i }}{{ if i == 1 }}{{ .U.NoField }}{{ end }}ok{{ catch }}!{{ end }}{{ end }}{{ end }}`,
	}
}

func genC11(t *rapid.T) c11Case {
	base := genC10(t) // pool of ordinary / failing / probing templates
	c := c11Case{Prog: base.Prog, Dev: rapid.IntRange(0, 2).Draw(t, "dev") == 0}
	nf := rapid.IntRange(1, 4).Draw(t, "nfields")
	seen := map[string]bool{}
	for len(c.Fields) < nf {
		f := fmt.Sprintf("F%c%d", 'A'+rune(rapid.IntRange(0, 25).Draw(t, "fieldLetter")), rapid.IntRange(0, 99).Draw(t, "fieldNum"))
		if !seen[f] {
			seen[f] = true
			c.Fields = append(c.Fields, f)
		}
	}
	var names []string
	for _, f := range base.Prog.Files {
		if f.Path != "/lib.jet" && len(f.Path) > 2 && f.Path[1] == 't' {
			names = append(names, f.Path)
		}
	}
	for n := range c11Fixed(c.Fields) {
		if n != "/fx/lib.jet" && n != "/fx/part.jet" && n != "/fx/lib2.jet" {
			names = append(names, n)
		}
	}
	sort.Strings(names)
	nw := rapid.IntRange(4, 12).Draw(t, "workers")
	if rapid.IntRange(0, 3).Draw(t, "crowd") == 0 {
		nw = rapid.IntRange(13, 32).Draw(t, "manyWorkers")
	}
	c.Procs = rapid.SampledFrom([]int{0, 0, 2, 4}).Draw(t, "procs")
	for w := 0; w < nw; w++ {
		var ops []c11Op
		for k := rapid.IntRange(5, 25).Draw(t, "nops"); k > 0; k-- {
			switch op := rapid.IntRange(0, 11).Draw(t, "op"); {
			case op <= 5:
				ops = append(ops, c11Op{Op: "exec", Name: names[rapid.IntRange(0, len(names)-1).Draw(t, "name")], Data: rapid.IntRange(0, 1).Draw(t, "data")})
			case op == 6:
				ops = append(ops, c11Op{Op: "get", Name: names[rapid.IntRange(0, len(names)-1).Draw(t, "gname")]})
			case op == 7:
				ops = append(ops, c11Op{Op: "parse", Name: fmt.Sprintf("/parsed%d.jet", rapid.IntRange(0, 2).Draw(t, "pname")), Arg: rapid.SampledFrom([]string{`{{ extends "/fx/layout.jet" }}{{ block body() }}p{{ end }}`, `{{ import "/fx/lib.jet" }}{{ yield box() content }}x{{ end }}`, `plain {{ 1 + 2 }}`, `{{ if }}`}).Draw(t, "psrc")})
			case op == 8 && rapid.IntRange(0, 2).Draw(t, "viaAddGlobalFunc") == 0:
				ops = append(ops, c11Op{Op: "addglobalfunc", Name: rapid.SampledFrom([]string{"noisefn1", "noisefn2", "ownfn"}).Draw(t, "gfkey")})
			case op == 8:
				ops = append(ops, c11Op{Op: "addglobal", Name: rapid.SampledFrom([]string{"noise1", "noise2", "g_read", "own", "own", "own"}).Draw(t, "gkey")})
			case op == 9:
				ops = append(ops, c11Op{Op: "lookupglobal", Name: rapid.SampledFrom([]string{"noise1", "g_read", "missing"}).Draw(t, "lkey")})
			case op == 10:
				ops = append(ops, c11Op{Op: "loaderset", Name: rapid.SampledFrom([]string{"/noise/a.jet", "/noise/b.jet", "/fx/part.jet", "/fx/lib.jet"}).Draw(t, "lsname")})
			default:
				ops = append(ops, c11Op{Op: "loaderdelete", Name: rapid.SampledFrom([]string{"/noise/a.jet", "/noise/b.jet"}).Draw(t, "ldname")})
			}
		}
		c.Workers = append(c.Workers, ops)
	}
	c.Repeat = rapid.IntRange(1, 3).Draw(t, "repeat")
	c.Src = base.Src
	return c
}

type c11World struct {
	set    *jet.Set
	loader *jet.InMemLoader
	files  map[string]string
	data   [2]interface{}
}

func c11Build(c c11Case, structType reflect.Type) *c11World {
	files := mj.NewPrinter().Sources(c.Prog)
	for k, v := range c11Fixed(c.Fields) {
		files[k] = v
	}
	var opts []jet.Option
	if c.Dev {
		opts = append(opts, jet.InDevelopmentMode())
	}
	s, l := jetrun.NewSet(files, opts...)
	c10Globals(s)
	for k, f := range failFuncs() {
		s.AddGlobalFunc(k, f)
	}
	s.AddGlobalFunc("rtprobe", func(a jet.Arguments) reflect.Value { return reflect.Value{} })
	s.AddGlobalFunc("publish", func(a jet.Arguments) reflect.Value {
		a.Runtime().LetGlobal("pub", "P")
		return reflect.Value{}
	})
	s.AddGlobal("xs0", []int{})
	s.AddGlobal("m0", map[string]int{})
	for k, r := range c.Prog.Vars {
		s.AddGlobal(k, mj.Build(r))
	}
	s.AddGlobal("mv", c11Both{N: 1})
	s.AddGlobal("mp", &c11Both{N: 2})
	s.AddGlobal("mvs", []c11Both{{N: 3}})
	s.AddGlobal("g_read", "G")
	s.AddGlobal("xs", []int{1, 2, 3})
	s.AddGlobal("m1", map[string]int{"k": 1})
	s.AddGlobal("arr", [2]string{"x", "y"})
	sv := reflect.New(structType).Elem()
	for i := 0; i < sv.NumField(); i++ {
		sv.Field(i).SetString(fmt.Sprintf("v%d", i))
	}
	s.AddGlobal("s", sv.Interface())
	mk := func(name string) interface{} { // no pointers inside: the data is printed by some templates
		return map[string]interface{}{"S": sv.Interface(), "U": mj.User{Name: name, Tags: []string{"a", "b"}}}
	}
	return &c11World{set: s, loader: l, files: files, data: [2]interface{}{mk("d0"), mk("d1")}}
}

// c11Both has a pointer-receiver method that sorts before its value-receiver method.
type c11Both struct{ N int }

func (b *c11Both) Alpha() string { return fmt.Sprintf("alpha%d", b.N) }
func (b c11Both) Zeta() string   { return fmt.Sprintf("zeta%d", b.N) }

// renderings that do not depend on the case
var c11Known = map[string]string{"/fx/methods.jet": "zeta1|zeta2|alpha2|zeta3alpha3"}

type c11Result struct {
	out, pos string
	failed   bool
}

func (w *c11World) exec(name string, data int) c11Result {
	t, o := jetrun.Get(w.set, name)
	if !o.Failed() {
		var vars jet.VarMap
		if name == "/fx/chans.jet" {
			ch, chs := make(chan int, 3), make(chan string, 2)
			ch <- 1
			ch <- 0
			ch <- 2
			chs <- "p"
			chs <- "q"
			close(ch)
			close(chs)
			vars = jet.VarMap{}
			vars.Set("ch", ch)
			vars.Set("chs", (<-chan string)(chs))
		}
		o = jetrun.Exec(t, vars, w.data[data])
	}
	if name == "/fx/dumpall.jet" {
		o.Out = "(not compared)"
	}
	r := c11Result{out: o.Out, failed: o.Failed()}
	if o.Panicked {
		r.pos = "PANIC " + o.PanicVal
	} else if o.Err != nil {
		f, l, _ := jetrun.ErrPos(o.Err)
		r.pos = fmt.Sprintf("%s:%d", f, l)
	}
	return r
}

func judgeC11(c c11Case) (v core.Verdict) {
	// remember the mix: a race report kills the process before rapid can say anything
	if b, err := json.Marshal(core.ReplayFile{Property: "C11", Violation: "data race reported by the race detector (or crash) while running this operation mix", Case: mustJSON(c)}); err == nil {
		_ = os.WriteFile(filepath.Join(core.OutDir(), "C11.current.json"), b, 0o644)
	}
	var sf []reflect.StructField
	for _, f := range c.Fields {
		sf = append(sf, reflect.StructField{Name: f, Type: reflect.TypeOf("")})
	}
	st := reflect.StructOf(sf) // a type nobody has seen: the field cache is filled concurrently
	// non-triviality: >=2 executions of the same template name race for its first load
	firstLoad := map[string]int{}
	for _, ops := range c.Workers {
		for _, op := range ops {
			if op.Op == "exec" {
				firstLoad[op.Name]++
			}
		}
	}
	overlap := false
	for _, n := range firstLoad {
		if n >= 2 {
			overlap = true
		}
	}
	v.NonTrivial = overlap
	v.Label(fmt.Sprintf("dev:%v", c.Dev), fmt.Sprintf("workers:%d", (len(c.Workers)+3)/4*4), fmt.Sprintf("procs:%d", c.Procs))
	if c.Procs > 0 {
		defer runtime.GOMAXPROCS(runtime.GOMAXPROCS(c.Procs))
	}
	// The concurrent runs come first: the struct type of this case has never been seen, so the
	// field cache is filled by racing goroutines. The serial expectations are computed afterwards.
	type obs struct {
		worker int
		op     c11Op
		got    c11Result
	}
	var mu sync.Mutex
	var seen []obs
	for rep := 0; rep < c.Repeat; rep++ {
		world := c11Build(c, st)
		start := make(chan struct{})
		var wg sync.WaitGroup
		for wi, ops := range c.Workers {
			wg.Add(1)
			go func(wi int, ops []c11Op) {
				defer wg.Done()
				<-start
				var mine []obs
				for _, op := range ops {
					switch op.Op {
					case "exec":
						mine = append(mine, obs{wi, op, world.exec(op.Name, op.Data)})
					case "get":
						jetrun.Get(world.set, op.Name)
					case "parse":
						jetrun.Parse(world.set, op.Name, op.Arg)
					case "addglobal":
						if op.Name == "g_read" {
							world.set.AddGlobal("g_read", "G") // same value the templates read
						} else if op.Name == "own" {
							world.set.AddGlobal(fmt.Sprintf("own%d", wi), wi) // a key no other goroutine writes
						} else {
							world.set.AddGlobal(op.Name, wi)
						}
					case "addglobalfunc":
						key := op.Name
						if key == "ownfn" {
							key = fmt.Sprintf("ownfn%d", wi)
						}
						world.set.AddGlobalFunc(key, func(a jet.Arguments) reflect.Value { return reflect.ValueOf(wi) })
					case "lookupglobal":
						world.set.LookupGlobal(op.Name)
					case "loaderset":
						if content, ok := world.files[op.Name]; ok {
							world.loader.Set(op.Name, content) // identical content
						} else {
							world.loader.Set(op.Name, fmt.Sprintf("noise %d", wi))
						}
					case "loaderdelete":
						world.loader.Delete(op.Name)
					}
				}
				mu.Lock()
				seen = append(seen, mine...)
				mu.Unlock()
			}(wi, ops)
		}
		close(start)
		if stuck := c11Wait(&wg); stuck != "" {
			v.Failf("the goroutines block each other for good (all that are left wait for a lock, twice the same picture 10 s apart): %s (dev=%v, workers %+v)", stuck, c.Dev, c.Workers)
			return
		}
		// every global that was added is there afterwards, whatever overlapped with the call that added it
		for wi, ops := range c.Workers {
			for _, op := range ops {
				if op.Op != "addglobal" {
					continue
				}
				key := op.Name
				if key == "own" {
					key = fmt.Sprintf("own%d", wi)
				}
				if val, ok := world.set.LookupGlobal(key); !ok || (op.Name == "own" && fmt.Sprint(val) != fmt.Sprint(wi)) {
					v.Failf("after all goroutines have finished, the global %q added by goroutine %d is missing or wrong (LookupGlobal = %v, %v); dev=%v", key, wi, val, ok, c.Dev)
					return
				}
			}
		}
	}
	private := c11Build(c, st)
	want := map[string]c11Result{}
	problem := ""
	for _, o := range seen {
		k := fmt.Sprintf("%s#%d", o.op.Name, o.op.Data)
		w, ok := want[k]
		if !ok {
			w = private.exec(o.op.Name, o.op.Data)
			want[k] = w
		}
		if abs, known := c11Known[o.op.Name]; known && (o.got.failed || o.got.out != abs) && problem == "" {
			// (process-wide caches poison the run alone as well: for templates with a known rendering, compare with that)
			problem = fmt.Sprintf("worker %d: Execute(%s) gave out=%q err=%q; it renders %q", o.worker, o.op.Name, o.got.out, o.got.pos, abs)
		}
		if o.got != w && problem == "" {
			problem = fmt.Sprintf("worker %d: Execute(%s, data %d) concurrently gave out=%q err=%q failed=%v; alone it gives out=%q err=%q failed=%v", o.worker, o.op.Name, o.op.Data, o.got.out, o.got.pos, o.got.failed, w.out, w.pos, w.failed)
		}
	}
	if problem != "" {
		v.Failf("%s (dev=%v, templates %q)", problem, c.Dev, c.Src)
	}
	return
}

// c11Wait waits for the workers. A mix takes milliseconds; when it has not finished after half a minute the
// goroutine dump is looked at: if every goroutine that is still inside the engine waits for a lock, and the same
// holds 10 s later with the same goroutines at the same places, nobody is left who could release one: deadlock.
// Anything else (slow machine) keeps waiting.
func c11Wait(wg *sync.WaitGroup) string {
	done := make(chan struct{})
	go func() { wg.Wait(); close(done) }()
	return waitOrDeadlock(done)
}

// waitOrDeadlock: "" once done is closed; a description of the blocked goroutines if they block each other for good.
func waitOrDeadlock(done <-chan struct{}) string {
	picture := func() (string, bool) {
		buf := make([]byte, 1<<22)
		buf = buf[:runtime.Stack(buf, true)]
		var waiting []string
		for _, g := range strings.Split(string(buf), "\n\n") {
			if !strings.Contains(g, "github.com/CloudyKit/jet/v6.") {
				continue
			}
			head := g[:strings.Index(g+"\n", "\n")]
			if !(strings.Contains(head, "sync.RWMutex") || strings.Contains(head, "sync.Mutex") || strings.Contains(head, "semacquire")) {
				return "", false // somebody inside the engine is running or waiting for something else
			}
			at := ""
			for _, l := range strings.Split(g, "\n") {
				if strings.HasPrefix(l, "github.com/CloudyKit/jet/v6.") {
					at = l
					break
				}
			}
			waiting = append(waiting, strings.Fields(head)[1]+" "+head[strings.Index(head, "["):]+" in "+at)
		}
		sort.Strings(waiting)
		return strings.Join(waiting, "; "), len(waiting) > 0
	}
	strip := regexp.MustCompile(`, \d+ minutes`)
	limit := 30 * time.Second
	for {
		select {
		case <-done:
			return ""
		case <-time.After(limit):
		}
		limit = 10 * time.Second
		p1, all1 := picture()
		if !all1 {
			continue
		}
		select {
		case <-done:
			return ""
		case <-time.After(10 * time.Second):
		}
		if p2, all2 := picture(); all2 && strip.ReplaceAllString(p1, "") == strip.ReplaceAllString(p2, "") {
			return p2
		}
	}
}

func mustJSON(x interface{}) json.RawMessage {
	b, _ := json.Marshal(x)
	return b
}

func TestC11(t *testing.T) {
	core.Run(t, "C11",
		"operation mixes: 4-32 goroutines (on all, 2 or 4 Ps) x 5-25 operations (GetTemplate+Execute of pool templates incl. failing ones and fixed templates ranging over slices/maps/arrays/ints()/slice() and over channels made for the execution, dump(names) compared and dump() / dump(1) executed but not compared, accessing fields of a reflect.StructOf type created for the case, calling value and pointer methods of one type reached as value / pointer / slice element (compared with the known rendering), yields, includes, extends, try (also nested and around yields / ranges); GetTemplate; Set.Parse incl. unparsable source; AddGlobal / AddGlobalFunc / LookupGlobal on unrelated keys or rewriting the same value; InMemLoader Set (identical content or unrelated files) / Delete (unrelated files)) on one fresh Set (development mode on/off), barrier start, repeated 1-3 times; binary built with -race and halt_on_error; every concurrent Execute compared with the same call alone on a private identically built Set; every global added by some goroutine must be there when all have finished; a mix that has not finished after 30 s is a deadlock if every goroutine inside the engine waits for a lock in two identical goroutine dumps 10 s apart (anything else keeps waiting); non-trivial = >=2 executions of the same template name race for its first load",
		genC11, judgeC11)
}

func TestC11Replay(t *testing.T) { core.Replay(t, "C11", judgeC11) }
