package checks

// C06 — field, index, slice and method access reach Go data uniformly and
// fail loudly. Paths are generated against the shape of a zoo value; the
// oracle is a direct reflect resolver (zoo_test.go).

import (
	"fmt"
	"reflect"
	"strings"
	"sync/atomic"
	"testing"

	"jetverif/core"
	"jetverif/jetrun"
	"jetverif/mj"

	"github.com/CloudyKit/jet/v6"
	"pgregory.net/rapid"
)

type c06Case struct {
	Variant int     `json:"variant"`
	Base    string  `json:"base"` // var | dot | call
	Steps   []zStep `json:"steps"`
	Expr    string  `json:"expr"`
	Twin    string  `json:"twin"` // same path, the other spelling for named members
	// Fresh (1: outer type asked first, 2: inner type asked first): the case is not a zoo path but a family of struct
	// types created for this case - E{*P; M}, P{Name}, M{D}, D{Name}, T{E} -: Name means P's, for E and for T, in
	// whatever order the engine meets the two types
	Fresh int `json:"fresh,omitempty"`
}

var zFreshCounter int64

// zFreshFamily builds the types (made unique by a field named after a process-wide counter) and values.
func zFreshFamily() (t, e reflect.Value) {
	n := atomic.AddInt64(&zFreshCounter, 1)
	str := reflect.TypeOf("")
	uniq := reflect.StructField{Name: fmt.Sprintf("U%d", n), Type: reflect.TypeOf(0)}
	D := reflect.StructOf([]reflect.StructField{{Name: "Name", Type: str}, uniq})
	M := reflect.StructOf([]reflect.StructField{{Name: "D", Type: D, Anonymous: true}})
	P := reflect.StructOf([]reflect.StructField{{Name: "Name", Type: str}, {Name: "OnlyP", Type: str}, uniq})
	E := reflect.StructOf([]reflect.StructField{{Name: "P", Type: reflect.PtrTo(P), Anonymous: true}, {Name: "M", Type: M, Anonymous: true}})
	T := reflect.StructOf([]reflect.StructField{{Name: "E", Type: E, Anonymous: true}})
	e = reflect.New(E).Elem()
	p := reflect.New(P)
	p.Elem().Field(0).SetString("shallow")
	p.Elem().Field(1).SetString("only-p")
	e.Field(0).Set(p)
	e.Field(1).Field(0).Field(0).SetString("deep")
	t = reflect.New(T).Elem()
	t.Field(0).Set(e)
	return t, e
}

func judgeC06Fresh(c c06Case) (v core.Verdict) {
	t, e := zFreshFamily()
	v.Label(fmt.Sprintf("fresh-embedding-family:%d", c.Fresh))
	v.NonTrivial = true
	tpl := "[{{ t.Name }}|{{ e.Name }}|{{ t.OnlyP }}|{{ e[\"Name\"] }}|{{ t.M.Name }}]"
	if c.Fresh == 2 {
		tpl = "[{{ e.Name }}|{{ t.Name }}|{{ e.OnlyP }}|{{ t[\"Name\"] }}|{{ e.M.Name }}]"
	}
	s, _ := jetrun.NewSet(map[string]string{"/fresh.jet": tpl})
	tp, o := jetrun.Get(s, "/fresh.jet")
	if !o.Failed() {
		vars := jet.VarMap{}
		vars.Set("t", t.Interface())
		vars.Set("e", e.Interface())
		o = jetrun.Exec(tp, vars, nil)
	}
	if o.Failed() || o.Out != "[shallow|shallow|only-p|shallow|deep]" {
		v.Failf("%s over E{*P; M{D}} and T{E} (Name in P and in D): %s; Go selects [shallow|shallow|only-p|shallow|deep]", tpl, o)
	}
	return
}

func genZPath(t *rapid.T, root interface{}, maxLen int, invalidOdds int) []zStep {
	var steps []zStep
	n := rapid.IntRange(1, maxLen).Draw(t, "pathlen")
	for i := 0; i < n; i++ {
		cur, st, _ := zResolve(root, steps)
		if st == zNil && rapid.IntRange(0, 2).Draw(t, "stepAfterAbsentKey") == 0 {
			// an absent key yields nil; whatever is applied to that nil next is a nil dereference, in every spelling
			if k := &steps[len(steps)-1]; k.Kind == "field" && k.Name != "" {
				k.Spell = []string{"dot", "bracket"}[rapid.IntRange(0, 1).Draw(t, "absentSpelling")]
			}
			steps = append(steps, zStep{Kind: "field", Name: "Anything", Spell: []string{"dot", "bracket"}[rapid.IntRange(0, 1).Draw(t, "afterAbsentSpelling")]})
			break
		}
		if st != zOK {
			break
		}
		valid, invalid := zOptions(cur)
		useInvalid := len(valid) == 0 || (len(invalid) > 0 && rapid.IntRange(0, invalidOdds).Draw(t, "invalid") == 0)
		var s zStep
		if useInvalid {
			if len(invalid) == 0 {
				break
			}
			s = invalid[rapid.IntRange(0, len(invalid)-1).Draw(t, "invalidStep")]
		} else {
			s = valid[rapid.IntRange(0, len(valid)-1).Draw(t, "validStep")]
		}
		if (s.Kind == "field" || s.Kind == "method") && s.Spell == "" {
			s.Spell = []string{"dot", "bracket"}[rapid.IntRange(0, 1).Draw(t, "spelling")]
		}
		steps = append(steps, s)
		if useInvalid || s.Kind == "slice" { // the grammar allows nothing after a slice expression
			break
		}
	}
	return steps
}

func zBaseExpr(base string) string {
	switch base {
	case "dot":
		return "."
	case "call":
		return "getroot()"
	}
	return "root"
}

func zTwin(steps []zStep) []zStep {
	out := append([]zStep{}, steps...)
	for i := range out {
		if out[i].Kind == "field" || out[i].Kind == "method" {
			if out[i].Name == "absentKey" || out[i].Name == "" {
				continue
			}
			if out[i].Spell == "dot" {
				out[i].Spell = "bracket"
			} else {
				out[i].Spell = "dot"
			}
		}
	}
	return out
}

func genC06(t *rapid.T) c06Case {
	if rapid.IntRange(0, 39).Draw(t, "freshFamily") == 0 {
		return c06Case{Fresh: rapid.IntRange(1, 2).Draw(t, "freshOrder")}
	}
	c := c06Case{Variant: rapid.IntRange(0, 7).Draw(t, "variant")}
	c.Base = []string{"var", "dot", "call"}[rapid.IntRange(0, 2).Draw(t, "base")]
	root := zooRoot(c.Variant)
	c.Steps = genZPath(t, root, 4, 5)
	for i := range c.Steps {
		// an index that is a variable of kind uintptr (a number like any other)
		if st := &c.Steps[i]; st.Kind == "index" && st.Var == "" && st.I >= 0 && st.I <= 4 && rapid.IntRange(0, 5).Draw(t, "uintptrIndex") == 0 {
			st.Var = fmt.Sprintf("uptr%d", st.I)
		}
	}
	c.Expr = zPathString(zBaseExpr(c.Base), c.Steps)
	c.Twin = zPathString(zBaseExpr(c.Base), zTwin(c.Steps))
	return c
}

func zSame(g, w reflect.Value) string {
	for g.IsValid() && g.Kind() == reflect.Interface && !g.IsNil() {
		g = g.Elem()
	}
	for w.IsValid() && w.Kind() == reflect.Interface && !w.IsNil() {
		w = w.Elem()
	}
	if !g.IsValid() || !w.IsValid() {
		if g.IsValid() == w.IsValid() {
			return "SAME"
		}
		return fmt.Sprintf("DIFF(valid: got %v want %v)", g.IsValid(), w.IsValid())
	}
	if g.Type() != w.Type() {
		return fmt.Sprintf("DIFF(type %s, want %s)", g.Type(), w.Type())
	}
	switch g.Kind() {
	case reflect.Ptr, reflect.Map, reflect.Chan, reflect.Func, reflect.UnsafePointer:
		if g.Pointer() == w.Pointer() {
			return "SAME"
		}
		return "DIFF(pointer)"
	case reflect.Slice:
		if g.Len() == w.Len() && (g.Len() == 0 || g.Pointer() == w.Pointer()) {
			return "SAME"
		}
		if g.Len() != w.Len() {
			return "DIFF(slice length)"
		}
	}
	if g.CanInterface() && w.CanInterface() && reflect.DeepEqual(g.Interface(), w.Interface()) {
		return "SAME"
	}
	return fmt.Sprintf("DIFF(value %v, want %v)", g, w)
}

func zRun(c c06Case, tpl string, want reflect.Value) jetrun.Outcome {
	root := zooRoot(c.Variant)
	// the oracle value must come from the very object the engine sees
	if want.IsValid() || true {
		w, _, _ := zResolve(root, c.Steps)
		want = w
	}
	s, _ := jetrun.NewSet(map[string]string{"/t.jet": tpl})
	vars := jet.VarMap{}
	vars.Set("root", root)
	vars.Set("nokeys", map[string]int{})
	for i := 0; i <= 4; i++ {
		vars.Set(fmt.Sprintf("uptr%d", i), uintptr(i))
	}
	for k, v := range zIfaceKeys {
		vars.Set(k, v)
	}
	vars.Set("getroot", func() interface{} { return root })
	vars.SetFunc("chk", func(a jet.Arguments) reflect.Value {
		return reflect.ValueOf(zSame(a.Get(0), want))
	})
	t, o := jetrun.Get(s, "/t.jet")
	if o.Failed() {
		return o
	}
	return jetrun.Exec(t, vars, root)
}

func isScalar(v reflect.Value) bool {
	switch v.Kind() {
	case reflect.String, reflect.Bool, reflect.Int, reflect.Int8, reflect.Int16, reflect.Int32, reflect.Int64, reflect.Uint, reflect.Uint8, reflect.Uint16, reflect.Uint32, reflect.Uint64, reflect.Float32, reflect.Float64:
		return true
	}
	return false
}

func judgeC06(c c06Case) (v core.Verdict) {
	if c.Fresh != 0 {
		return judgeC06Fresh(c)
	}
	root := zooRoot(c.Variant)
	want, st, why := zResolve(root, c.Steps)
	expr := zPathString(zBaseExpr(c.Base), c.Steps)
	twin := zPathString(zBaseExpr(c.Base), zTwin(c.Steps))
	crosses := false
	cur := reflect.ValueOf(root)
	for i := range c.Steps {
		if cur.IsValid() && (cur.Kind() == reflect.Ptr || cur.Kind() == reflect.Interface) {
			crosses = true
		}
		cur, _, _ = zResolve(root, c.Steps[:i+1])
		v.Label("step:" + c.Steps[i].Kind + ":" + c.Steps[i].Spell)
	}
	v.Label(fmt.Sprintf("variant:%d", c.Variant), "base:"+c.Base, fmt.Sprintf("status:%d", st))
	v.NonTrivial = (len(c.Steps) >= 2 && crosses) || (st == zErr && len(c.Steps) >= 2)
	desc := fmt.Sprintf("{{ %s }} on zoo variant %d", expr, c.Variant)
	switch st {
	case zErr:
		v.Label("invalid:" + why)
		o := zRun(c, "[{{ "+expr+" }}]", reflect.Value{})
		if o.Panicked {
			v.Failf("%s (%s): Execute panicked instead of returning an error: %s", desc, why, o.PanicVal)
		} else if o.Err == nil {
			v.Failf("%s (%s): must be an error, but rendered %q", desc, why, o.Out)
		}
	case zNil:
		o := zRun(c, "[{{ "+expr+" }}|{{ "+expr+` == nil ? "NIL" : "VAL" }}]`, reflect.Value{})
		if o.Failed() || o.Out != "[|NIL]" {
			v.Failf("%s: an absent map key must yield nil (render nothing, == nil): %s", desc, o)
		}
	default:
		o := zRun(c, "[{{ chk("+expr+") }}]", want)
		if o.Failed() || o.Out != "[SAME]" {
			v.Failf("%s: must yield the stored value %v: %s", desc, want, o)
			return
		}
		if expr != twin {
			o2 := zRun(c, "[{{ chk("+twin+") }}]", want)
			if o2.Failed() || o2.Out != "[SAME]" {
				v.Failf("%s agrees with the data, but the other spelling {{ %s }} does not: %s", desc, twin, o2)
				return
			}
		}
		if want.IsValid() && isScalar(want) {
			o3 := zRun(c, "[{{ "+expr+" }}]", want)
			wantOut := "[" + string(mj.HTMLEscape(mj.PrintValue(want.Interface()))) + "]"
			if o3.Failed() || o3.Out != wantOut {
				v.Failf("%s: rendered %s, want %q", desc, o3, wantOut)
			}
		}
	}
	_ = strings.TrimSpace
	return
}

func TestC06(t *testing.T) {
	core.Run(t, "C06",
		"access paths (1-4 steps) generated against the shape of a zoo value (8 variants: pointer/value root, pointer to an interface variable, nil pointers-maps-interfaces, typed nil, reached through map and interface slice, **T): exported / promoted (value- and pointer-embedded) / shadowed fields, map entries by name and by int or named-string key, interface-keyed entries under keys of different dynamic types, slice/array/string elements (indexes also as uintptr variables), keys that do not fit the key type or cannot be hashed, maps behind pointers, slices, value and pointer methods (also of defined int and slice types; value methods through nil pointers are errors), each named step spelt .name or [\"name\"], bases variable / '.' / call result; optionally ending in an invalid step (unexported or missing field, wrong-kind or out-of-range index, bad slice bounds, slice bounds that evaluate to nothing, nil dereference, nil embedded pointer); also: a field promoted through an embedded pointer that sits one level down against a by-value field of the same name one level deeper; a map keyed by an array of interfaces (present, absent and unhashable key values); round 10: slots of a named empty interface type (typed nils, values, as field / element / map entry); a nil pointer to a defined non-struct type with a value-receiver method; two struct types of the same name with different layouts; a struct that embeds the pointer-shallow struct; a family of struct types created for the case (E{*P; M{D}}, T{E}) asked in either order; integer keys on string-keyed maps; round 11: maps with 64-bit integer keys indexed with numbers that change sign when converted; slices as indexes of an array-keyed map; a context-rooted chain that ends in an absent key; oracle = direct reflect resolver: identical value (pointer identity / DeepEqual), other spelling agrees, scalar rendering, invalid => error not panic, absent key => nil; non-trivial = >=2 steps crossing a pointer or interface, or an invalid step at depth>=2",
		genC06, judgeC06)
}

func TestC06Replay(t *testing.T) { core.Replay(t, "C06", judgeC06) }
