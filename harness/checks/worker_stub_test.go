package checks

// workerMain is replaced by the isolation worker entry point (isolate_test.go).
func workerMain() bool { return false }
