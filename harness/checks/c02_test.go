package checks

// C02 — parsing is total: any source under any delimiter configuration yields
// a usable template or an error naming the template and a line inside it;
// never a panic (caller or lexer goroutine), never a hang, no goroutine left;
// structural mistakes are always reported.
//
// Every case runs in an isolated worker process (see isolate_test.go).

import (
	"fmt"
	"os"
	"path/filepath"
	"regexp"
	"sort"
	"strconv"
	"strings"
	"testing"

	"jetverif/core"
	"jetverif/gensrc"
	"jetverif/jetrun"

	"pgregory.net/rapid"
)

type c02Case struct {
	Gen      string            `json:"gen"`  // which generator produced it
	Mode     string            `json:"mode"` // "parse" | "get"
	Delims   jetrun.Delims     `json:"delims"`
	Src      string            `json:"src"`
	Files    map[string]string `json:"files,omitempty"`
	MustFail string            `json:"must_fail,omitempty"` // structural mistake kind: err must be non-nil
	Base     string            `json:"base,omitempty"`      // structural: the valid program the mistake was built on (premise: it parses)
	// OpenFails: a path (the template itself or a referenced one) the loader reports as existing but cannot open
	OpenFails string `json:"open_fails,omitempty"`
	// OpenFailsKind: "runtime" = the error the loader returns is a Go runtime error value
	OpenFailsKind string `json:"open_fails_kind,omitempty"`
	// Name of the template ("" = /main.jet): names are data, also with characters that mean something to fmt
	Name string `json:"name,omitempty"`
}

var c02Dict = []string{
	"extends", "import", "include", "block", "end", "yield", "content", "if", "else", "range", "try", "catch", "return",
	"and", "or", "not", "nil", "true", "false", "msg", "trans", "isset", "len", "exec",
	"(", ")", "[", "]", "{", "}", ":", ":=", "=", "==", "!=", "<", "<=", ">", ">=", "+", "-", "*", "/", "%", "!", "&&", "||", "&", "|", "?", ",", ";", ".", "_", "..", ".x", "x.y",
	"\"", "`", "'", "\\", "\"abc\"", "`r`", "'c'", "'", "\"\\", "0", "1", "-1", "1.5", "0x", "1e", "1i", "089", "é", "日", "_é", "_1", "_", "\x00", "\xff", "\xc3", "\xe6\x97", "\n", "\r\n", "\t", " ",
	" -", "- ", "{{", "}}", "{*", "*}", "{{-", "-}}", "[[", "]]",
	// digits, letters and spaces beyond ASCII, also directly behind a sign
	"٣", "３", "৩", "-٣", "+３", "(-৩)", "1٣", "\u00a0", "\u2028", "\u0085", "x\u00a0y", "Ⅷ", "²",
}

func genC02Delims(t *rapid.T) jetrun.Delims {
	if rapid.IntRange(0, 2).Draw(t, "defaultDelims") > 0 {
		return jetrun.Delims{}
	}
	if rapid.IntRange(0, 5).Draw(t, "halfConfigured") == 0 {
		// only one delimiter of a pair configured: the other one keeps its default
		// (the last two: a right delimiter that begins like the trim marker " -")
		return []jetrun.Delims{{Right: "]]"}, {Left: "[["}, {CRight: "#>"}, {CLeft: "<#"}, {Left: "<%", CRight: "#>"}, {Right: "%>", CLeft: "{#"}, {Right: " -}}"}, {Left: "<%", Right: " -%>"}}[rapid.IntRange(0, 7).Draw(t, "halfWhich")]
	}
	return genDelims(t)
}

var tokRe = regexp.MustCompile(`\s+|[A-Za-z_0-9]+|.`)

func mutate(t *rapid.T, d jetrun.Delims, src string, other string) (string, string) {
	dict := append([]string{d.L(), d.R(), d.CL(), d.CR(), d.L() + "- ", " -" + d.R(), d.L() + "end" + d.R()}, c02Dict...)
	kind := rapid.SampledFrom([]string{"truncate", "tok-delete", "tok-dup", "tok-swap", "insert", "byteflip", "splice", "insert-many"}).Draw(t, "mutation")
	switch kind {
	case "truncate":
		if len(src) == 0 {
			return src, kind
		}
		return src[:rapid.IntRange(0, len(src)-1).Draw(t, "cut")], kind
	case "tok-delete", "tok-dup", "tok-swap":
		toks := tokRe.FindAllString(src, -1)
		if len(toks) < 2 {
			return src + d.L(), kind
		}
		i := rapid.IntRange(0, len(toks)-1).Draw(t, "tok")
		switch kind {
		case "tok-delete":
			toks = append(toks[:i:i], toks[i+1:]...)
		case "tok-dup":
			toks = append(toks[:i+1:i+1], toks[i:]...)
		default:
			j := rapid.IntRange(0, len(toks)-1).Draw(t, "tok2")
			toks[i], toks[j] = toks[j], toks[i]
		}
		return strings.Join(toks, ""), kind
	case "insert", "insert-many":
		n := 1
		if kind == "insert-many" {
			n = rapid.IntRange(2, 5).Draw(t, "ninsert")
		}
		for k := 0; k < n; k++ {
			at := rapid.IntRange(0, len(src)).Draw(t, "at")
			w := dict[rapid.IntRange(0, len(dict)-1).Draw(t, "word")]
			src = src[:at] + w + src[at:]
		}
		return src, kind
	case "byteflip":
		if len(src) == 0 {
			return src, kind
		}
		b := []byte(src)
		i := rapid.IntRange(0, len(b)-1).Draw(t, "flipat")
		b[i] = rapid.Byte().Draw(t, "flipto")
		return string(b), kind
	default: // splice
		a := rapid.IntRange(0, len(src)).Draw(t, "spliceA")
		b := rapid.IntRange(0, len(other)).Draw(t, "spliceB")
		return src[:a] + other[b:], kind
	}
}

func genC02(t *rapid.T) c02Case {
	if rapid.IntRange(0, 59).Draw(t, "fanIn") == 0 {
		// a library of templates in which every level refers to the next one twice: each is parsed once, also when
		// the set has seen them all and the page is handed to Set.Parse (what is remembered is used)
		n := rapid.IntRange(24, 40).Draw(t, "fanInLevels")
		c := c02Case{Gen: "fan-in", Mode: "warm-parse", Files: map[string]string{}}
		for i := 0; i < n; i++ {
			c.Files[fmt.Sprintf("/l%d.jet", i)] = fmt.Sprintf(`{{import "/l%d.jet"}}{{import "l%d.jet"}}{{block b%d()}}%d{{end}}`, i+1, i+1, i, i)
		}
		c.Files[fmt.Sprintf("/l%d.jet", n)] = "{{block last()}}last{{end}}"
		c.Src = `{{extends "/l0.jet"}}`
		if rapid.Bool().Draw(t, "fanInViaImport") {
			c.Src = `{{import "/l0.jet"}}{{import "l1.jet"}}{{yield last()}}`
		}
		return c
	}
	d := genC02Delims(t)
	c := c02Case{Delims: d, Mode: "parse"}
	if rapid.IntRange(0, 4).Draw(t, "mode") == 0 {
		c.Mode = "get"
	}
	L, R := d.L(), d.R()
	valid := func(label string) string {
		g := gensrc.New(t, L, R, d.CL(), d.CR())
		g.MaxDepth = 2
		return g.Program()
	}
	// referenced templates
	header := ""
	if rapid.IntRange(0, 3).Draw(t, "refs") == 0 {
		c.Files = map[string]string{
			"/base.jet":   L + "block blk0()" + R + "base" + L + "end" + R,
			"/broken.jet": L + "if" + R + L + "end",
			"/cyc.jet":    L + `import "base.jet"` + R + L + `import "main.jet"` + R, // cycle when main is loaded by name
			// stored templates that refer to themselves, by absolute and by relative name
			"/selfloop.jet": L + `extends "/selfloop.jet"` + R,
			"/selfrel.jet":  L + `import "base.jet"` + R + L + `import "selfrel.jet"` + R,
		}
		kw := rapid.SampledFrom([]string{"extends", "import"}).Draw(t, "refkw")
		tgt := rapid.SampledFrom([]string{"base.jet", "/base.jet", "broken.jet", "missing.jet", "./base", "../base.jet", "cyc.jet", "main.jet", "", ".", "/", "..", "base.jet/", "selfloop.jet", "/selfrel.jet", "selfrel.jet"}).Draw(t, "reftgt")
		if strings.Contains(tgt, "self") && rapid.Bool().Draw(t, "parsedUnderTheNameOfTheSelfReferringOne") {
			// the source is handed over under the very name of the stored template that refers to itself
			c.Name = "/" + strings.TrimPrefix(tgt, "/")
		}
		header = L + kw + ` "` + tgt + `"` + R
		if rapid.Bool().Draw(t, "secondref") {
			header += "\n" + L + `import "base.jet"` + R
		}
	}
	switch g := rapid.IntRange(0, 9).Draw(t, "generator"); {
	case g <= 3:
		c.Gen = "mutated-valid"
		src, kind := mutate(t, d, header+valid("p1"), valid("p2"))
		if rapid.IntRange(0, 3).Draw(t, "twice") == 0 {
			src, _ = mutate(t, d, src, "")
			kind += "+2"
		}
		c.Src = src
		c.Gen += ":" + strings.TrimSuffix(kind, "+2")
	case g <= 5:
		c.Gen = "token-soup"
		n := rapid.IntRange(0, 8).Draw(t, "soupN")
		var b strings.Builder
		b.WriteString(rapid.SampledFrom([]string{"", "text ", header}).Draw(t, "soupPrefix"))
		b.WriteString(L)
		for i := 0; i < n; i++ {
			b.WriteString(c02Dict[rapid.IntRange(0, len(c02Dict)-1).Draw(t, "soup")])
			if rapid.Bool().Draw(t, "soupSp") {
				b.WriteString(" ")
			}
		}
		if rapid.IntRange(0, 5).Draw(t, "soupClose") > 0 {
			b.WriteString(R)
		}
		c.Src = b.String()
	case g == 6:
		c.Gen = "bytes"
		alphabet := []byte("{}*-[]<>%#\"'`\\ \n._(|:=a1\x00\xff\xc3\xa9" + L + R + d.CL() + d.CR())
		n := rapid.IntRange(0, 24).Draw(t, "bytesN")
		b := make([]byte, n)
		for i := range b {
			if rapid.IntRange(0, 5).Draw(t, "anybyte") == 0 {
				b[i] = rapid.Byte().Draw(t, "byte")
			} else {
				b[i] = alphabet[rapid.IntRange(0, len(alphabet)-1).Draw(t, "abyte")]
			}
		}
		c.Src = string(b)
	case g == 7:
		c.Gen = "valid"
		c.Src = header + valid("p")
	default:
		c.Gen = "structural"
		p := valid("p")
		c.Base = p
		kind := rapid.SampledFrom([]string{"unterminated-action", "unterminated-action-empty", "unterminated-comment", "unterminated-string", "unterminated-rawstring", "unterminated-char",
			"missing-end-if", "missing-end-range", "missing-end-block", "missing-end-try", "missing-end-yieldcontent", "surplus-end", "surplus-end-after-block",
			"extends-after-text", "import-after-text", "extends-after-action", "import-after-action",
			"stray-else-in-block", "stray-content-in-range", "stray-catch-outside-try", "stray-else-at-top", "stray-content-in-if"}).Draw(t, "mistake")
		c.MustFail = kind
		if c.Files == nil {
			c.Files = map[string]string{}
		}
		c.Files["/base.jet"] = L + "block blk0()" + R + "base" + L + "end" + R
		end := L + "end" + R
		switch kind {
		case "unterminated-action":
			c.Src = p + L + rapid.SampledFrom([]string{" x", " 1 + 2 ", "if x", ` "s" `, " x -"}).Draw(t, "ua")
		case "unterminated-action-empty":
			c.Src = p + L
		case "unterminated-comment":
			// also: the closer's tail directly behind the opener ("{*}"), which must not count as a closer
			tail := rapid.SampledFrom([]string{"", " note ", " " + L + " x " + R, "*", "\n", d.CR()[1:], d.CR()[1:] + " tail", d.CR()[:len(d.CR())-1]}).Draw(t, "uc")
			if strings.Contains(d.CL()[1:]+tail, d.CR()) {
				tail = " note " // (the closer is part of the tail, e.g. a comment closed by the action's right delimiter)
			}
			c.Src = p + d.CL() + tail
		case "unterminated-string":
			c.Src = p + L + ` "abc` + rapid.SampledFrom([]string{"\n", "", "\n" + `"` + R, " " + R}).Draw(t, "us")
		case "unterminated-rawstring":
			c.Src = p + L + " `abc " + R
		case "unterminated-char":
			c.Src = p + L + ` 'a` + "\n" + R
		case "missing-end-if":
			c.Src = header + L + "if x" + R + p + rapid.SampledFrom([]string{"", L + "else" + R + "e"}).Draw(t, "mei")
		case "missing-end-range":
			c.Src = header + L + "range x" + R + p
		case "missing-end-block":
			c.Src = header + L + "block zz()" + R + p
		case "missing-end-try":
			c.Src = header + L + "try" + R + p + rapid.SampledFrom([]string{"", L + "catch" + R + "c"}).Draw(t, "met")
		case "missing-end-yieldcontent":
			c.Src = header + L + "yield blk0() content" + R + p
		case "surplus-end":
			c.Src = header + p + end
		case "surplus-end-after-block":
			c.Src = header + L + "if x" + R + p + end + end
		case "stray-else-in-block":
			c.Src = header + L + "block zz()" + R + p + L + "else" + R + "x" + end
		case "stray-content-in-range":
			c.Src = header + L + "range x" + R + p + L + "content" + R + "x" + end
		case "stray-catch-outside-try":
			c.Src = header + p + L + "catch" + R + "x" + end
		case "stray-else-at-top":
			c.Src = header + p + L + "else" + R
		case "stray-content-in-if":
			c.Src = header + L + "if x" + R + p + L + "content" + R + "y" + end
		case "extends-after-text":
			c.Src = "text" + L + `extends "base.jet"` + R + p
		case "import-after-text":
			c.Src = " x " + L + `import "base.jet"` + R + p
		case "extends-after-action":
			c.Src = L + "1" + R + L + `extends "base.jet"` + R
		case "import-after-action":
			c.Src = L + `"a"` + R + "\n" + L + `import "base.jet"` + R + p
		}
	}
	if c.MustFail == "" && rapid.IntRange(0, 9).Draw(t, "openFails") == 0 {
		if len(c.Files) > 0 {
			c.OpenFails = rapid.SampledFrom([]string{"/base.jet", "/main.jet", "/cyc.jet"}).Draw(t, "openFailsPath")
		} else if c.Mode == "get" {
			c.OpenFails = "/main.jet"
		}
	}
	if c.OpenFails != "" && rapid.IntRange(0, 2).Draw(t, "openFailsWithARuntimeError") == 0 {
		c.OpenFailsKind = "runtime"
	}
	if c.OpenFails == "" && len(c.Files) == 0 && rapid.IntRange(0, 7).Draw(t, "oddName") == 0 {
		c.Name = rapid.SampledFrom([]string{"/100%s%d.jet", "/caf%C3%A9/menu%20one.jet", "/50%off.jet", "/%v%q%!.jet"}).Draw(t, "name")
	}
	return c
}

var errPrefixRe = regexp.MustCompile(`^template: ([^:]+):(\d+): `)

func judgeC02(c c02Case) (v core.Verdict) {
	name := "/main.jet"
	if c.Name != "" {
		name = c.Name
		v.Label("template-name-with-percent-sign")
	}
	if len(c.Src) > 8192 {
		v.Discard = "too-long"
		return
	}
	resp, crash, hang, infra := isoCall(isoReq{Op: c.Mode, Name: name, Src: c.Src, Delims: c.Delims, Files: c.Files, OpenFails: c.OpenFails, OpenFailsKind: c.OpenFailsKind})
	if infra != nil {
		panic(infra)
	}
	if c.OpenFails != "" {
		v.Label("loader-open-fails:" + c.OpenFails)
	}
	hasL := strings.Contains(c.Src, c.Delims.L())
	v.NonTrivial = hasL && !strings.HasPrefix(c.Gen, "valid")
	v.Label("gen:" + c.Gen)
	if c.Delims != (jetrun.Delims{}) {
		v.Label("custom-delims")
	}
	desc := fmt.Sprintf("%s of %q (delims %q %q / %q %q, files %v)", c.Mode, c.Src, c.Delims.L(), c.Delims.R(), c.Delims.CL(), c.Delims.CR(), keys(c.Files))
	if crash != "" {
		v.Label("outcome:crash")
		v.Failf("%s killed the process: %s", desc, lastLines(crash, 12))
		return
	}
	if hang {
		v.Label("outcome:hang")
		v.Failf("%s did not return within 20 s (twice)", desc)
		return
	}
	if resp.CallerPanic != "" {
		v.Label("outcome:panic")
		v.Failf("%s panicked: %s", desc, resp.CallerPanic)
		return
	}
	if resp.Second != "" {
		v.Failf("%s: %s", desc, resp.Second)
		return
	}
	if resp.LexerLeak {
		v.Failf("%s left a lexer goroutine running: %s", desc, clip(resp.LeakStacks))
		return
	}
	if c.OpenFails != "" {
		// an I/O failure is an error like any other; its wording (which file, which line) is not laid down
		if c.OpenFails == name && c.Mode == "get" && !resp.HasErr {
			v.Failf("%s: the template cannot be opened, yet GetTemplate reported no error", desc)
		}
		return
	}
	if resp.HasErr {
		if strings.Contains(resp.ErrText, "unexpected") || strings.Contains(resp.ErrText, "parsing") {
			v.Label("outcome:parser-error")
		} else {
			v.Label("outcome:lexer-or-other-error")
		}
		m := errPrefixRe.FindStringSubmatch(resp.ErrText)
		if m == nil || m[1] != name {
			v.Failf("%s: error does not name the template and a line: %q", desc, resp.ErrText)
			return
		}
		line, _ := strconv.Atoi(m[2])
		if line < 1 || line > 1+strings.Count(c.Src, "\n") {
			v.Failf("%s: error line %d outside the source (1..%d): %q", desc, line, 1+strings.Count(c.Src, "\n"), resp.ErrText)
		}
		return
	}
	v.Label("outcome:parsed")
	if resp.TemplateNil || resp.RootNil {
		v.Failf("%s: nil error but unusable template (nil=%v rootnil=%v)", desc, resp.TemplateNil, resp.RootNil)
		return
	}
	if resp.StringPanic != "" {
		v.Failf("%s: Template.String() panicked: %s", desc, resp.StringPanic)
		return
	}
	if c.MustFail != "" {
		// premise: the program the mistake was built on is itself accepted (with exotic delimiters an
		// operator such as '>' can be the right delimiter, and then the "valid program" is not one)
		if c.Base != "" {
			b, bcrash, bhang, _ := isoCall(isoReq{Op: "parse", Name: name, Src: c.Base, Delims: c.Delims, Files: c.Files})
			if bcrash != "" || bhang || b.HasErr || b.CallerPanic != "" {
				v.Discard = "structural-premise-not-valid"
				v.Err = ""
				return
			}
		}
		v.Failf("%s: structural mistake %q was silently accepted", desc, c.MustFail)
	}
	return
}

func keys(m map[string]string) []string {
	var ks []string
	for k := range m {
		ks = append(ks, k)
	}
	sort.Strings(ks)
	return ks
}

func TestC02(t *testing.T) {
	defer isoPool.Close()
	core.Run(t, "C02",
		"byte strings from 5 generators (valid full-grammar programs mutated by truncation/token delete-dup-swap/dictionary insertion/byte flip/splice; token soup in one action; delimiter-biased bytes; unmutated valid; structural mistakes that must be rejected; 1 case in 60 a library of 24-40 levels each importing the next one twice, all cached, with the page handed to Set.Parse) x template names (1 in 8 with percent signs) x delimiter configurations x referenced-template sets, via Set.Parse or GetTemplate, each in an isolated worker; plus every prefix of the seed templates; also: stored templates that refer to themselves (absolute and relative name), also with the source handed to Set.Parse under the name of such a template; loader failures whose error value is a Go runtime error; non-trivial = source contains a left delimiter and is not an unmutated valid program; distinct by case hash",
		genC02, judgeC02)
}

// TestC02Prefixes: every prefix of every seed template ("truncated at every offset").
func TestC02Prefixes(t *testing.T) {
	defer isoPool.Close()
	col := core.Collector("C02", "")
	files, _ := filepath.Glob(filepath.Join(core.Root(), "harness", "checks", "testdata", "jetseeds", "*"))
	sort.Strings(files)
	if len(files) == 0 {
		t.Fatalf("no seed templates found")
	}
	shard, _ := strconv.Atoi(os.Getenv("JETVERIF_PREFIX_SHARD"))
	nshard, _ := strconv.Atoi(os.Getenv("JETVERIF_PREFIX_SHARDS"))
	if nshard == 0 {
		nshard = 1
	}
	k := 0
	for _, f := range files {
		b, err := os.ReadFile(f)
		if err != nil {
			t.Fatal(err)
		}
		d := jetrun.Delims{}
		if strings.Contains(f, "custom_delimiters") {
			d = jetrun.Delims{Left: "[[", Right: "]]", CLeft: "[*", CRight: "*]"}
		}
		for i := 0; i <= len(b); i++ {
			k++
			if k%nshard != shard {
				continue
			}
			c := c02Case{Gen: "prefix:" + filepath.Base(f), Mode: "parse", Delims: d, Src: string(b[:i])}
			v := judgeC02(c)
			repr := fmt.Sprintf(`{"gen":%q,"mode":"parse","delims":{"Left":%q,"Right":%q,"CLeft":%q,"CRight":%q},"src":%q}`, c.Gen, d.Left, d.Right, d.CLeft, d.CRight, c.Src)
			v.Labels = []string{"gen:prefix"}
			col.Record([]byte(repr), v.NonTrivial, v.Labels)
			if v.Err != "" {
				col.Violation()
				core.WriteReplay("C02", []byte(repr), v.Err)
				t.Fatalf("VIOLATION C02: %s", v.Err)
			}
		}
	}
}

func TestC02Replay(t *testing.T) {
	defer isoPool.Close()
	core.Replay(t, "C02", judgeC02)
}
