package checks

import (
	"os"
	"testing"

	"jetverif/core"
)

func TestMain(m *testing.M) {
	if workerMain() {
		return
	}
	code := m.Run()
	core.Flush()
	os.Exit(code)
}
