// Package isolate runs engine calls in a worker sub-process so that failure
// modes recover() cannot catch (panic in the lexer goroutine, fatal stack
// overflow, genuine hang) become observations instead of killing the test.
//
// Protocol: 4-byte little-endian length + JSON, both directions, over the
// worker's stdin/stdout. The worker is the test binary itself, re-executed
// with JETVERIF_WORKER=1.
package isolate

import (
	"bufio"
	"encoding/binary"
	"fmt"
	"io"
	"os"
	"os/exec"
	"runtime/debug"
	"sync"
	"time"
)

type ring struct {
	mu  sync.Mutex
	buf []byte
}

func (r *ring) Write(p []byte) (int, error) {
	r.mu.Lock()
	r.buf = append(r.buf, p...)
	if len(r.buf) > 16384 {
		r.buf = r.buf[len(r.buf)-16384:]
	}
	r.mu.Unlock()
	return len(p), nil
}

func (r *ring) String() string {
	r.mu.Lock()
	defer r.mu.Unlock()
	return string(r.buf)
}

type Worker struct {
	cmd    *exec.Cmd
	in     io.WriteCloser
	out    *bufio.Reader
	stderr *ring
	done   chan struct{}
}

// Result of one isolated call.
type Result struct {
	Resp   []byte
	Died   bool   // worker process exited / closed its pipe before answering
	Hung   bool   // no answer within the timeout (worker killed)
	Stderr string // tail of the worker's stderr (panic message, fatal error)
}

type Pool struct {
	mu     sync.Mutex
	w      *Worker
	Spawns int
}

func (p *Pool) spawn() (*Worker, error) {
	exe, err := os.Executable()
	if err != nil {
		return nil, err
	}
	cmd := exec.Command(exe)
	cmd.Env = append(os.Environ(), "JETVERIF_WORKER=1")
	in, err := cmd.StdinPipe()
	if err != nil {
		return nil, err
	}
	out, err := cmd.StdoutPipe()
	if err != nil {
		return nil, err
	}
	r := &ring{}
	cmd.Stderr = r
	if err := cmd.Start(); err != nil {
		return nil, err
	}
	p.Spawns++
	w := &Worker{cmd: cmd, in: in, out: bufio.NewReaderSize(out, 1<<16), stderr: r, done: make(chan struct{})}
	return w, nil
}

func (w *Worker) kill() {
	_ = w.cmd.Process.Kill()
	_ = w.in.Close()
	_ = w.cmd.Wait()
}

// Call sends req to the worker and waits for the answer.
func (p *Pool) Call(req []byte, timeout time.Duration) (Result, error) {
	p.mu.Lock()
	defer p.mu.Unlock()
	if p.w == nil {
		w, err := p.spawn()
		if err != nil {
			return Result{}, fmt.Errorf("spawn worker: %w", err)
		}
		p.w = w
	}
	w := p.w
	var hdr [4]byte
	binary.LittleEndian.PutUint32(hdr[:], uint32(len(req)))
	if _, err := w.in.Write(append(hdr[:], req...)); err != nil {
		w.kill()
		p.w = nil
		return Result{Died: true, Stderr: w.stderr.String()}, nil
	}
	type ans struct {
		b   []byte
		err error
	}
	ch := make(chan ans, 1)
	go func() {
		var h [4]byte
		if _, err := io.ReadFull(w.out, h[:]); err != nil {
			ch <- ans{nil, err}
			return
		}
		n := binary.LittleEndian.Uint32(h[:])
		b := make([]byte, n)
		if _, err := io.ReadFull(w.out, b); err != nil {
			ch <- ans{nil, err}
			return
		}
		ch <- ans{b, nil}
	}()
	select {
	case a := <-ch:
		if a.err != nil {
			w.kill()
			p.w = nil
			return Result{Died: true, Stderr: w.stderr.String()}, nil
		}
		return Result{Resp: a.b}, nil
	case <-time.After(timeout):
		w.kill()
		p.w = nil
		<-ch
		return Result{Hung: true, Stderr: w.stderr.String()}, nil
	}
}

func (p *Pool) Close() {
	p.mu.Lock()
	defer p.mu.Unlock()
	if p.w != nil {
		p.w.kill()
		p.w = nil
	}
}

// IsWorker reports whether this process was started as a worker.
func IsWorker() bool { return os.Getenv("JETVERIF_WORKER") == "1" }

// Serve is the worker main loop; handler must not write to stdout.
func Serve(handler func(req []byte) []byte) {
	debug.SetMaxStack(64 << 20)
	in := bufio.NewReaderSize(os.Stdin, 1<<16)
	out := bufio.NewWriter(os.Stdout)
	for {
		var h [4]byte
		if _, err := io.ReadFull(in, h[:]); err != nil {
			return
		}
		n := binary.LittleEndian.Uint32(h[:])
		b := make([]byte, n)
		if _, err := io.ReadFull(in, b); err != nil {
			return
		}
		resp := handler(b)
		binary.LittleEndian.PutUint32(h[:], uint32(len(resp)))
		out.Write(h[:])
		out.Write(resp)
		if err := out.Flush(); err != nil {
			return
		}
	}
}
