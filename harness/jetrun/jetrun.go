// Package jetrun builds a jet.Set from a serialisable description, executes
// templates and captures output / error / panic without letting a panic that
// reaches the calling goroutine kill the test process.
package jetrun

import (
	"bytes"
	"fmt"
	"io"
	"regexp"
	"strconv"
	"testing/iotest"

	"github.com/CloudyKit/jet/v6"
)

// Delims is a delimiter configuration; empty strings mean "engine default".
type Delims struct {
	Left, Right   string
	CLeft, CRight string
	// CommentFirst: WithCommentDelims is passed to NewSet before WithDelims (options are independent of each
	// other, so their order is not supposed to matter)
	CommentFirst bool `json:",omitempty"`
}

func (d Delims) L() string {
	if d.Left == "" {
		return "{{"
	}
	return d.Left
}
func (d Delims) R() string {
	if d.Right == "" {
		return "}}"
	}
	return d.Right
}
func (d Delims) CL() string {
	if d.CLeft == "" {
		return "{*"
	}
	return d.CLeft
}
func (d Delims) CR() string {
	if d.CRight == "" {
		return "*}"
	}
	return d.CRight
}

func (d Delims) Options() []jet.Option {
	var o []jet.Option
	if d.Left != "" || d.Right != "" {
		o = append(o, jet.WithDelims(d.Left, d.Right))
	}
	if d.CLeft != "" || d.CRight != "" {
		o = append(o, jet.WithCommentDelims(d.CLeft, d.CRight))
	}
	if d.CommentFirst && len(o) == 2 {
		o[0], o[1] = o[1], o[0]
	}
	return o
}

// Outcome of one Parse/GetTemplate/Execute call.
type Outcome struct {
	Out      string
	Err      error
	Panicked bool
	PanicVal string
}

func (o Outcome) Failed() bool { return o.Err != nil || o.Panicked }

func (o Outcome) String() string {
	switch {
	case o.Panicked:
		return fmt.Sprintf("PANIC(%s) out=%q", o.PanicVal, o.Out)
	case o.Err != nil:
		return fmt.Sprintf("ERR(%v) out=%q", o.Err, o.Out)
	}
	return fmt.Sprintf("OK out=%q", o.Out)
}

// NewSet returns a Set over an in-memory loader holding files.
func NewSet(files map[string]string, opts ...jet.Option) (*jet.Set, *jet.InMemLoader) {
	l := jet.NewInMemLoader()
	for k, v := range files {
		l.Set(k, v)
	}
	return jet.NewSet(l, opts...), l
}

// StyledLoader hands out readers that deliver their content in one of the ways the io.Reader contract
// allows: "data-eof" returns the last bytes together with io.EOF, "one-byte" one byte per Read,
// "half" half of what is asked for, "" whatever the inner loader does.
type StyledLoader struct {
	Inner jet.Loader
	Style string
}

func (l *StyledLoader) Exists(p string) bool { return l.Inner.Exists(p) }

func (l *StyledLoader) Open(p string) (io.ReadCloser, error) {
	rc, err := l.Inner.Open(p)
	if err != nil {
		return nil, err
	}
	var r io.Reader = rc
	switch l.Style {
	case "data-eof":
		r = iotest.DataErrReader(rc)
	case "one-byte":
		r = iotest.OneByteReader(rc)
	case "half":
		r = iotest.HalfReader(rc)
	}
	return struct {
		io.Reader
		io.Closer
	}{r, rc}, nil
}

// NewStyledSet is NewSet with a StyledLoader in front of the in-memory loader.
func NewStyledSet(files map[string]string, style string, opts ...jet.Option) *jet.Set {
	l := jet.NewInMemLoader()
	for k, v := range files {
		l.Set(k, v)
	}
	return jet.NewSet(&StyledLoader{Inner: l, Style: style}, opts...)
}

// Get calls GetTemplate with recover.
func Get(s *jet.Set, name string) (t *jet.Template, o Outcome) {
	defer func() {
		if r := recover(); r != nil {
			o.Panicked = true
			o.PanicVal = fmt.Sprint(r)
			t = nil
		}
	}()
	t, err := s.GetTemplate(name)
	o.Err = err
	return t, o
}

// Parse calls Set.Parse with recover.
func Parse(s *jet.Set, name, src string) (t *jet.Template, o Outcome) {
	defer func() {
		if r := recover(); r != nil {
			o.Panicked = true
			o.PanicVal = fmt.Sprint(r)
			t = nil
		}
	}()
	t, err := s.Parse(name, src)
	o.Err = err
	return t, o
}

// Exec executes t with recover.
// capBuffer is a bytes.Buffer that refuses to grow beyond limit: a loop that never ends runs into an error
// instead of eating the machine's memory.
type capBuffer struct {
	bytes.Buffer
	limit int
}

func (b *capBuffer) Write(p []byte) (int, error) {
	if b.Len()+len(p) > b.limit {
		return 0, fmt.Errorf("jetrun: more than %d bytes of output", b.limit)
	}
	return b.Buffer.Write(p)
}

func Exec(t *jet.Template, vars jet.VarMap, data interface{}) (o Outcome) {
	buf := capBuffer{limit: 64 << 20}
	defer func() {
		if r := recover(); r != nil {
			o.Panicked = true
			o.PanicVal = fmt.Sprint(r)
		}
		o.Out = buf.String()
	}()
	o.Err = t.Execute(&buf, vars, data)
	return o
}

// Render = NewSet + Get + Exec for the common single-call case.
func Render(files map[string]string, entry string, vars jet.VarMap, data interface{}, opts ...jet.Option) Outcome {
	s, _ := NewSet(files, opts...)
	t, o := Get(s, entry)
	if o.Failed() {
		return o
	}
	return Exec(t, vars, data)
}

var posRe = regexp.MustCompile(`\("([^"]*)":(\d+)\)`)

// ErrPos extracts ("file":line) from a Jet runtime error.
func ErrPos(err error) (file string, line int, ok bool) {
	if err == nil {
		return "", 0, false
	}
	m := posRe.FindStringSubmatch(err.Error())
	if m == nil {
		return "", 0, false
	}
	n, _ := strconv.Atoi(m[2])
	return m[1], n, true
}
