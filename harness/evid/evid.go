// Package evid collects what a check actually explored: counters, label
// histogram, distinct non-trivial case hashes and a deterministic sample
// reservoir. One collector per property per process; the driver merges the
// per-shard fragments.
package evid

import (
	"encoding/binary"
	"encoding/json"
	"hash/fnv"
	"os"
	"sort"
	"sync"
)

type sample struct {
	h uint64
	v json.RawMessage
}

type Collector struct {
	mu          sync.Mutex
	ID          string
	Rule        string
	evals       int
	nontriv     map[uint64]struct{}
	labels      map[string]int
	excluded    map[string]int
	samples     []sample
	maxSamples  int
	violations  int
	assumptions []string
}

// MaxDistinct bounds the number of distinct case hashes a shard keeps.
var MaxDistinct = 250000

func New(id, rule string) *Collector {
	return &Collector{ID: id, Rule: rule, nontriv: map[uint64]struct{}{}, labels: map[string]int{}, excluded: map[string]int{}, maxSamples: 6}
}

func Hash(b []byte) uint64 {
	h := fnv.New64a()
	h.Write(b)
	return h.Sum64()
}

func (c *Collector) Assume(s string) {
	c.mu.Lock()
	defer c.mu.Unlock()
	for _, a := range c.assumptions {
		if a == s {
			return
		}
	}
	c.assumptions = append(c.assumptions, s)
}

// Record one evaluated case. repr is the canonical JSON of the case.
func (c *Collector) Record(repr []byte, nontrivial bool, labels []string) {
	c.mu.Lock()
	defer c.mu.Unlock()
	c.evals++
	for _, l := range labels {
		c.labels[l]++
	}
	if !nontrivial {
		return
	}
	h := Hash(repr)
	if _, ok := c.nontriv[h]; ok {
		return
	}
	if len(c.nontriv) >= MaxDistinct {
		// very long runs: the count becomes a lower bound instead of growing without limit
		c.labels["distinct-nontrivial-not-counted-beyond-cap"]++
		return
	}
	c.nontriv[h] = struct{}{}
	// deterministic reservoir: keep the maxSamples smallest hashes (bounded size per sample)
	if len(repr) > 6000 {
		return
	}
	if len(c.samples) < c.maxSamples {
		c.samples = append(c.samples, sample{h, append([]byte(nil), repr...)})
		sort.Slice(c.samples, func(i, j int) bool { return c.samples[i].h < c.samples[j].h })
		return
	}
	if h < c.samples[len(c.samples)-1].h {
		c.samples[len(c.samples)-1] = sample{h, append([]byte(nil), repr...)}
		sort.Slice(c.samples, func(i, j int) bool { return c.samples[i].h < c.samples[j].h })
	}
}

func (c *Collector) Exclude(key string) {
	c.mu.Lock()
	c.excluded[key]++
	c.mu.Unlock()
}

func (c *Collector) Label(l string) {
	c.mu.Lock()
	c.labels[l]++
	c.mu.Unlock()
}

func (c *Collector) Violation() {
	c.mu.Lock()
	c.violations++
	c.mu.Unlock()
}

type Fragment struct {
	ID          string            `json:"property_id"`
	Rule        string            `json:"rule"`
	Evaluations int               `json:"evaluations"`
	Distinct    int               `json:"distinct_nontrivial"`
	Labels      map[string]int    `json:"labels"`
	Excluded    map[string]int    `json:"excluded_known_shapes"`
	Samples     []json.RawMessage `json:"samples"`
	SampleHash  []uint64          `json:"sample_hashes"`
	Violations  int               `json:"violations"`
	Assumptions []string          `json:"assumptions"`
}

// Write writes <path> (JSON fragment) and <path>.hashes (little-endian uint64s).
func (c *Collector) Write(path string) error {
	c.mu.Lock()
	defer c.mu.Unlock()
	f := Fragment{ID: c.ID, Rule: c.Rule, Evaluations: c.evals, Distinct: len(c.nontriv), Labels: c.labels, Excluded: c.excluded, Violations: c.violations, Assumptions: c.assumptions}
	for _, s := range c.samples {
		f.Samples = append(f.Samples, s.v)
		f.SampleHash = append(f.SampleHash, s.h)
	}
	b, err := json.Marshal(f)
	if err != nil {
		return err
	}
	if err := os.WriteFile(path, b, 0o644); err != nil {
		return err
	}
	hb := make([]byte, 0, 8*len(c.nontriv))
	var tmp [8]byte
	for h := range c.nontriv {
		binary.LittleEndian.PutUint64(tmp[:], h)
		hb = append(hb, tmp[:]...)
	}
	return os.WriteFile(path+".hashes", hb, 0o644)
}
