// Package core is the plumbing shared by all checks: a generic rapid runner
// that records evidence and writes a replay file for every failing case (the
// last one written is the shrunk one, because rapid re-runs the minimal case
// last), a replay runner that bypasses rapid, and the known-findings list.
package core

import (
	"bufio"
	"crypto/sha256"
	"encoding/json"
	"fmt"
	"os"
	"path/filepath"
	"runtime/debug"
	"sort"
	"strings"
	"sync"
	"testing"

	"jetverif/evid"

	"pgregory.net/rapid"
)

// Verdict is what an oracle says about one case.
type Verdict struct {
	NonTrivial bool
	Labels     []string
	Err        string // violation description; "" = property held on this case
	Known      string // key of a known-finding shape this case falls into ("" = none)
	Discard    string // reason the case is outside the property's domain ("" = in domain)
}

func (v *Verdict) Failf(format string, a ...interface{}) {
	if v.Err == "" {
		v.Err = fmt.Sprintf(format, a...)
	}
}

func (v *Verdict) Label(l ...string) { v.Labels = append(v.Labels, l...) }

var (
	collMu     sync.Mutex
	collectors = map[string]*evid.Collector{}
)

func Collector(id, rule string) *evid.Collector {
	collMu.Lock()
	defer collMu.Unlock()
	c, ok := collectors[id]
	if !ok {
		c = evid.New(id, rule)
		collectors[id] = c
	} else if rule != "" && c.Rule == "" {
		c.Rule = rule
	}
	return c
}

func Root() string {
	if r := os.Getenv("JETVERIF_ROOT"); r != "" {
		return r
	}
	return "/verif"
}

func OutDir() string {
	if r := os.Getenv("JETVERIF_OUT"); r != "" {
		return r
	}
	return os.TempDir()
}

// Flush writes all evidence fragments; called from TestMain.
func Flush() {
	collMu.Lock()
	defer collMu.Unlock()
	suffix := ""
	for _, a := range os.Args {
		if strings.HasPrefix(a, "-test.fuzzworker") {
			suffix = fmt.Sprintf(".fuzzworker%d", os.Getpid()) // one fragment per fuzz worker process
		}
	}
	for id, c := range collectors {
		_ = c.Write(filepath.Join(OutDir(), id+suffix+".frag.json"))
	}
}

// ---- known findings ----

type Finding struct {
	Property string
	Key      string
	Text     string
}

var (
	findOnce sync.Once
	findings map[string]Finding // by key
)

func Findings() map[string]Finding {
	findOnce.Do(func() {
		findings = map[string]Finding{}
		f, err := os.Open(filepath.Join(Root(), "KNOWN_FINDINGS.txt"))
		if err != nil {
			return
		}
		defer f.Close()
		sc := bufio.NewScanner(f)
		for sc.Scan() {
			line := strings.TrimSpace(sc.Text())
			if !strings.HasPrefix(line, "finding:") {
				continue
			}
			rest := strings.Fields(strings.TrimPrefix(line, "finding:"))
			var fd Finding
			var text []string
			for _, w := range rest {
				switch {
				case strings.HasPrefix(w, "property=") && fd.Property == "":
					fd.Property = strings.TrimPrefix(w, "property=")
				case strings.HasPrefix(w, "key=") && fd.Key == "":
					fd.Key = strings.TrimPrefix(w, "key=")
				default:
					text = append(text, w)
				}
			}
			fd.Text = strings.Join(text, " ")
			if fd.Key != "" {
				findings[fd.Key] = fd
			}
		}
	})
	return findings
}

// IsKnown reports whether key is a listed (unfixed) finding for property id.
func IsKnown(id, key string) bool {
	f, ok := Findings()[key]
	return ok && f.Property == id
}

// ---- replay files ----

type ReplayFile struct {
	Property  string          `json:"property"`
	Violation string          `json:"violation,omitempty"`
	Note      string          `json:"note,omitempty"`
	Case      json.RawMessage `json:"case"`
}

// WriteReplay stores the failing case for the driver (last write wins = shrunk case).
func WriteReplay(id string, repr []byte, violation string) {
	rf := ReplayFile{Property: id, Violation: violation, Case: repr}
	b, _ := json.MarshalIndent(rf, "", " ")
	_ = os.WriteFile(filepath.Join(OutDir(), id+".fail.json"), b, 0o644)
}

func safeJudge[C any](judge func(C) Verdict, c C) (v Verdict) {
	defer func() {
		if r := recover(); r != nil {
			v = Verdict{Err: fmt.Sprintf("HARNESS-PANIC: %v\n%s", r, debug.Stack())}
		}
	}()
	return judge(c)
}

// Run drives gen+judge under rapid and records evidence.
func Run[C any](t *testing.T, id, rule string, gen func(*rapid.T) C, judge func(C) Verdict) {
	rapid.Check(t, property(id, rule, gen, judge))
}

// Fuzz drives the same generator and oracle with Go's coverage-guided fuzzer: the fuzzed bytes are the
// stream of random choices the generator draws from, so mutation happens on the level of generator decisions.
func Fuzz[C any](f *testing.F, id, rule string, gen func(*rapid.T) C, judge func(C) Verdict) {
	// starting corpus: decision streams of several lengths, a pure function of the property and JETVERIF_SEED
	// (an empty corpus makes the fuzzer spend its budget on inputs too short for the generator)
	for k := 0; k < 48; k++ {
		n := []int{256, 1024, 4096, 16384}[k%4]
		buf := make([]byte, 0, n+32)
		for blk := 0; len(buf) < n; blk++ {
			h := sha256.Sum256([]byte(fmt.Sprintf("%s/%s/%d/%d", id, os.Getenv("JETVERIF_SEED"), k, blk)))
			buf = append(buf, h[:]...)
		}
		f.Add(buf[:n])
	}
	f.Fuzz(rapid.MakeFuzz(property(id, rule, gen, judge)))
}

// One judges a single case that did not come from a rapid generator (byte-level fuzz targets).
func One[C any](t testing.TB, id string, c C, judge func(C) Verdict) {
	col := Collector(id, "")
	repr, err := json.Marshal(c)
	if err != nil {
		t.Fatalf("case not serialisable: %v", err)
	}
	v := safeJudge(judge, c)
	if v.Discard != "" {
		col.Label("discard:" + v.Discard)
		return
	}
	if v.Known != "" && IsKnown(id, v.Known) {
		col.Exclude(v.Known)
		return
	}
	col.Record(repr, v.NonTrivial, v.Labels)
	if v.Err != "" {
		col.Violation()
		WriteReplay(id, repr, v.Err)
		t.Fatalf("VIOLATION %s: %s\ncase: %s", id, v.Err, truncate(string(repr), 4000))
	}
}

func property[C any](id, rule string, gen func(*rapid.T) C, judge func(C) Verdict) func(*rapid.T) {
	col := Collector(id, rule)
	return func(rt *rapid.T) {
		c := gen(rt)
		repr, err := json.Marshal(c)
		if err != nil {
			rt.Fatalf("case not serialisable: %v", err)
		}
		v := safeJudge(judge, c)
		if v.Discard != "" {
			col.Label("discard:" + v.Discard)
			return
		}
		if v.Known != "" && IsKnown(id, v.Known) {
			col.Exclude(v.Known)
			return
		}
		col.Record(repr, v.NonTrivial, v.Labels)
		if v.Err != "" {
			col.Violation()
			WriteReplay(id, repr, v.Err)
			rt.Fatalf("VIOLATION %s: %s\ncase: %s", id, v.Err, truncate(string(repr), 4000))
		}
	}
}

func truncate(s string, n int) string {
	if len(s) > n {
		return s[:n] + "…"
	}
	return s
}

// Replay re-executes saved cases through judge, without rapid.
//
//	corpus/<ID>/*.json   must hold (regressions of fixed defects, shrunk failures)
//	findings/*.json      property==ID: listed findings; print KNOWN-FINDING while they still fail
//	$JETVERIF_REPLAY     a single file given on the command line: must hold
func Replay[C any](t *testing.T, id string, judge func(C) Verdict) {
	col := Collector(id, "")
	run := func(path string, finding bool) {
		b, err := os.ReadFile(path)
		if err != nil {
			t.Fatalf("replay %s: %v", path, err)
		}
		var rf ReplayFile
		if err := json.Unmarshal(b, &rf); err != nil {
			t.Fatalf("replay %s: %v", path, err)
		}
		if rf.Property != id {
			return
		}
		var c C
		if err := json.Unmarshal(rf.Case, &c); err != nil {
			t.Fatalf("replay %s: case: %v", path, err)
		}
		v := safeJudge(judge, c)
		col.Label("replayed")
		if finding {
			key := strings.TrimSuffix(filepath.Base(path), ".json")
			fd, listed := Findings()[key]
			if !listed {
				return // not listed: the file suppresses nothing
			}
			if v.Err != "" {
				fmt.Printf("KNOWN-FINDING: property=%s %s [%s]\n", id, fd.Text, key)
			} else {
				fmt.Printf("NOTE: listed finding %s no longer reproduces on this tree\n", key)
			}
			return
		}
		if v.Err != "" {
			col.Violation()
			out := filepath.Join(OutDir(), id+".fail.json")
			_ = os.WriteFile(out, b, 0o644)
			t.Errorf("VIOLATION %s (replay %s): %s", id, path, v.Err)
		}
	}
	if p := os.Getenv("JETVERIF_REPLAY"); p != "" {
		run(p, false)
		return
	}
	files, _ := filepath.Glob(filepath.Join(Root(), "corpus", id, "*.json"))
	sort.Strings(files)
	for _, f := range files {
		run(f, false)
	}
	ff, _ := filepath.Glob(filepath.Join(Root(), "findings", "*.json"))
	sort.Strings(ff)
	for _, f := range ff {
		run(f, true)
	}
}
