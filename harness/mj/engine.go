package mj

import (
	"bytes"
	"errors"
	"fmt"
	"io"
	"reflect"
	"sync"

	"jetverif/jetrun"

	"github.com/CloudyKit/jet/v6"
)

// EngineRun prints p, builds a fresh Set and executes the entry template.
// funcs are registered as Execute variables (jet.Func); the returned VarMap
// is the one handed to Execute (to inspect residue).
func EngineRun(p *Program, funcs map[string]jet.Func) (jetrun.Outcome, jet.VarMap, map[string]string) {
	src := NewPrinter().Sources(p)
	var opts []jet.Option
	switch p.Escaper {
	case "nil":
		opts = append(opts, jet.WithSafeWriter(nil))
	case "custom":
		opts = append(opts, jet.WithSafeWriter(mkSafeWriter(CustomEscape)))
	}
	if p.Dev {
		opts = append(opts, jet.InDevelopmentMode())
	}
	first := src
	if len(p.Late) > 0 {
		first = map[string]string{}
		for k, v := range src {
			first[k] = v
		}
		for _, k := range p.Late {
			delete(first, k)
		}
	}
	if p.ForeignLayout != "" {
		shared := &sharedCache{}
		var fopts []jet.Option
		switch p.ForeignLayout {
		case "nil":
			fopts = append(fopts, jet.WithSafeWriter(nil))
		case "custom":
			fopts = append(fopts, jet.WithSafeWriter(mkSafeWriter(CustomEscape)))
		}
		other, _ := jetrun.NewSet(first, append(fopts, jet.WithCache(shared))...)
		for _, f := range p.Files {
			if f.Extends != "" {
				func() {
					defer func() { recover() }()
					jetrun.Get(other, f.Extends)
				}()
			}
		}
		opts = append(opts, jet.WithCache(shared))
	}
	s, loader := jetrun.NewSet(first, opts...)
	// addGlobalNow(name, value): Go code called by the running template adds a global to the Set it runs on
	s.AddGlobalFunc("addGlobalNow", func(a jet.Arguments) reflect.Value {
		s.AddGlobal(a.Get(0).String(), a.Get(1).Interface())
		return reflect.Value{}
	})
	// rtWrite(s...): Go code that writes through the Runtime it is handed (the escaping writer), piece by piece
	s.AddGlobalFunc("rtWrite", func(a jet.Arguments) reflect.Value {
		for i := 0; i < a.NumOfArguments(); i++ {
			a.Runtime().Write([]byte(a.Get(i).String()))
		}
		return reflect.Value{}
	})
	s.AddGlobalFunc("given", func(a jet.Arguments) reflect.Value { return reflect.ValueOf(a.IsSet(0)) })
	swCustomFn, _ := safeWriter("swCustom")
	swCustom := mkSafeWriter(swCustomFn)
	s.AddGlobal("swCustom", swCustom)
	for k, r := range p.Globals {
		if r.T == "swcustom" {
			s.AddGlobal(k, swCustom)
			continue
		}
		s.AddGlobal(k, Build(r))
	}
	vars := jet.VarMap{}
	for k, r := range p.Vars {
		if r.T == "swcustom" {
			vars.Set(k, swCustom)
			continue
		}
		if r.T == "unexported-string" {
			vars[k] = reflect.ValueOf(struct{ s string }{r.S}).Field(0)
			continue
		}
		v := Build(r)
		if v == nil {
			vars[k] = reflect.Value{}
		} else {
			vars.Set(k, v)
		}
	}
	for k, f := range funcs {
		if p.NilVars {
			s.AddGlobalFunc(k, f)
			continue
		}
		vars.SetFunc(k, f)
	}
	if p.NilVars {
		// what the case needs as variables is supplied through the Set's globals instead
		for k, v := range vars {
			if v.IsValid() {
				s.AddGlobal(k, v.Interface())
			} else {
				s.AddGlobal(k, nil)
			}
		}
		vars = nil
	}
	if len(p.Late) > 0 || len(p.Gone) > 0 {
		func() {
			defer func() { recover() }()
			if t0, o0 := jetrun.Get(s, p.Entry); !o0.Failed() {
				vars0 := jet.VarMap{}
				for k, v := range vars {
					vars0[k] = v
				}
				var data0 interface{}
				if p.Data != nil {
					data0 = Build(*p.Data)
				}
				_ = t0.Execute(io.Discard, vars0, data0)
			}
		}()
		for _, k := range p.Late {
			loader.Set(k, src[k])
		}
		for _, k := range p.Gone {
			loader.Delete(k)
		}
	}
	t, o := jetrun.Get(s, p.Entry)
	if o.Failed() {
		return o, vars, src
	}
	var data interface{}
	if p.Data != nil {
		data = Build(*p.Data)
	}
	if p.PriorEntry != "" {
		func() {
			defer func() { recover() }()
			if t0, o0 := jetrun.Get(s, p.PriorEntry); !o0.Failed() {
				var data0 interface{}
				if p.PriorData != nil {
					data0 = Build(*p.PriorData)
				}
				_ = t0.Execute(io.Discard, nil, data0)
			}
		}()
	}
	if p.BrokenFirst > 0 {
		func() {
			defer func() { recover() }()
			vars0 := jet.VarMap{}
			for k, v := range vars {
				vars0[k] = v
			}
			var data0 interface{}
			if p.Data != nil {
				data0 = Build(*p.Data)
			}
			_ = t.Execute(&brokenWriter{left: p.BrokenFirst}, vars0, data0)
		}()
	}
	if p.FailOnPrefix != "" {
		w := &refusingWriter{Buffer: new(bytes.Buffer), prefix: []byte(p.FailOnPrefix)}
		o := jetrun.Outcome{}
		func() {
			defer func() {
				if r := recover(); r != nil {
					o.Panicked, o.PanicVal = true, fmt.Sprint(r)
				}
			}()
			o.Err = t.Execute(w, vars, data)
		}()
		o.Out = string(w.got)
		if w.refused && !o.Panicked {
			o.PanicVal = "refused"
		}
		return o, vars, src
	}
	if p.FailingWriter > 0 {
		// the observed Execute writes into a destination that takes FailingWriter-1 bytes and then fails
		w := &brokenWriter{left: p.FailingWriter - 1, keep: true}
		o := jetrun.Outcome{}
		func() {
			defer func() {
				if r := recover(); r != nil {
					o.Panicked, o.PanicVal = true, fmt.Sprint(r)
				}
			}()
			o.Err = t.Execute(w, vars, data)
		}()
		o.Out = string(w.got)
		return o, vars, src
	}
	return jetrun.Exec(t, vars, data), vars, src
}

// sharedCache is a Cache object handed to more than one Set.
type sharedCache struct{ m sync.Map }

func (c *sharedCache) Get(path string) *jet.Template {
	if t, ok := c.m.Load(path); ok {
		return t.(*jet.Template)
	}
	return nil
}

func (c *sharedCache) Put(path string, t *jet.Template) { c.m.Store(path, t) }

// mkSafeWriter: the Set's custom escaper and the user-supplied pipeline writer are made by one constructor
// (two closures of the same function literal: same code, different behaviour).
//
//go:noinline
func mkSafeWriter(f func([]byte) []byte) jet.SafeWriter {
	return func(w io.Writer, b []byte) { w.Write(f(b)) }
}

// brokenWriter accepts left bytes and fails from then on.
// refusingWriter fails once: on the first Write whose payload begins with prefix.
// refusingWriter wraps a buffer the way applications wrap response writers: by embedding it and overriding Write.
// What reaches the destination reaches it through Write; the methods the embedded buffer brings along (WriteString,
// ReadFrom, ...) are not the destination's.
type refusingWriter struct {
	*bytes.Buffer
	prefix  []byte
	refused bool
	got     []byte
}

func (w *refusingWriter) Write(b []byte) (int, error) {
	if !w.refused && bytes.Contains(b, w.prefix) {
		w.refused = true
		return 0, errors.New("connection reset (once)")
	}
	w.got = append(w.got, b...)
	return len(b), nil
}

type brokenWriter struct {
	left int
	keep bool
	got  []byte
}

func (w *brokenWriter) Write(b []byte) (int, error) {
	if len(b) <= w.left {
		w.left -= len(b)
		if w.keep {
			w.got = append(w.got, b...)
		}
		return len(b), nil
	}
	n := w.left
	w.left = 0
	if w.keep {
		w.got = append(w.got, b[:n]...)
	}
	return n, errors.New("broken pipe")
}

// ModelRun executes p on the reference interpreter. discard != "" means the
// program left what the model defines (a generator problem, not a verdict).
func ModelRun(p *Program, setup func(*Interp)) (res Result, discard string) {
	NewPrinter().Sources(p) // assigns file/line to every node
	in := NewInterp(p)
	if setup != nil {
		setup(in)
	}
	vars := map[string]interface{}{}
	for k, r := range p.Vars {
		if r.T == "swcustom" {
			vars[k] = fnValue{"swCustom"}
			continue
		}
		if r.T == "ifunc" {
			vars[k] = fnValue{fmt.Sprintf("ifunc:%d", r.I)}
			continue
		}
		vars[k] = Build(r)
	}
	globals := map[string]interface{}{"swCustom": fnValue{"swCustom"}}
	for k, r := range p.Globals {
		if r.T == "swcustom" {
			globals[k] = fnValue{"swCustom"}
			continue
		}
		globals[k] = Build(r)
	}
	var data interface{}
	if p.Data != nil {
		data = Build(*p.Data)
	}
	defer func() {
		if r := recover(); r != nil {
			if oom, ok := r.(OutOfModel); ok {
				discard = oom.Why
				return
			}
			panic(r)
		}
	}()
	res = in.Run(vars, globals, data)
	return res, ""
}
