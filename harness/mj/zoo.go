package mj

import (
	"errors"
	"fmt"
	"github.com/CloudyKit/jet/v6"
	"math"
	"reflect"
	"sort"
	"strconv"
	"strings"
)

// Recipe is a JSON-serialisable description of a Go value; Build turns it
// into a fresh value (channels are consumed by ranging, so every execution
// gets its own build).
type Recipe struct {
	T     string   `json:"t"`
	I     int64    `json:"i,omitempty"`
	F     float64  `json:"f,omitempty"`
	S     string   `json:"s,omitempty"`
	B     bool     `json:"b,omitempty"`
	Is    []int64  `json:"is,omitempty"`
	Ss    []string `json:"ss,omitempty"`
	Keys  []string `json:"keys,omitempty"`
	Elems []Recipe `json:"elems,omitempty"`
}

// ---- zoo types ----

// RendWrite renders itself by writing its text through Runtime.Write, the escaping writer: a value with
// rendering logic of its own is still a rendered value (Runtime.Writer would be the documented raw bypass).
type RendWrite struct{ S string }

func (x RendWrite) Render(r *jet.Runtime) { r.Write([]byte(x.S)) }

// RendChunks is a Renderer that hands its text over in pieces - each through Runtime.Write, the escaping
// writer; with Raw set, a piece of markup goes to Runtime.Writer (the documented bypass) after every piece -
// and that may fail (a panic with an error) after FailAfter pieces. Pieces may end in the middle of a
// multi-byte character: what a Renderer has written is written, in the order it was written.
type RendChunks struct {
	Pieces    []string
	Raw       bool
	FailAfter int // < 0: never
}

const RendChunksRaw = "<i/>"

func (x RendChunks) Render(r *jet.Runtime) {
	for i, p := range x.Pieces {
		if i == x.FailAfter {
			panic(fmt.Errorf("renderer gave up after %d pieces", i))
		}
		r.Write([]byte(p))
		if x.Raw {
			r.Writer.Write([]byte(RendChunksRaw))
		}
	}
	if x.FailAfter >= len(x.Pieces) {
		panic(fmt.Errorf("renderer gave up after %d pieces", len(x.Pieces)))
	}
}

type User struct {
	Name   string
	Age    int
	Tags   []string
	Friend *User
	Meta   map[string]interface{}
	secret string
}

func (u User) Greeting() string      { return "hi " + u.Name }
func (u *User) PtrName() string      { return "ptr:" + u.Name }
func (u User) Twice(s string) string { return s + s }

// ValRecv has a method with a value receiver.
type ValRecv struct{ N int }

func (v ValRecv) Hello() string { return "hello" }

// RendStr is a fmt.Stringer, an error and a jet.Renderer at once. Reached through a slot of type fmt.Stringer or error
// it is printed like any Stringer / error (escaped); only a value that is a Renderer by its own type renders itself.
type RendStr struct{ S string }

func (r RendStr) String() string         { return r.S }
func (r RendStr) Error() string          { return r.S }
func (r RendStr) Render(rt *jet.Runtime) { rt.Writer.Write([]byte("RENDERED-RAW:" + r.S)) }

type StrHolder struct {
	Label fmt.Stringer
	List  []fmt.Stringer
	Err   error
}

// IfuncVals are the values the "ifunc" functions hand back in an interface{}.
var IfuncVals = []interface{}{0, "", false, 1, "x", true, nil, 2.5, []int{}, []int{4, 5}}

// KindStrg is of kind string and a fmt.Stringer at once: what it says is what counts, as for every Stringer.
type KindStrg string

func (k KindStrg) String() string { return strings.TrimPrefix(string(k), "underlying:") }

type Strg struct{ S string }

func (s Strg) String() string { return s.S }

// IdxRanger is a custom Ranger that provides an index.
type IdxRanger struct {
	Items []string
	i     int
}

func (r *IdxRanger) Range() (reflect.Value, reflect.Value, bool) {
	if r.i >= len(r.Items) {
		return reflect.Value{}, reflect.Value{}, true
	}
	k, v := reflect.ValueOf(r.i), reflect.ValueOf(r.Items[r.i])
	r.i++
	return k, v, false
}
func (r *IdxRanger) ProvidesIndex() bool { return true }

// PlainRanger is a custom Ranger without index.
type PlainRanger struct {
	Items []string
	i     int
}

func (r *PlainRanger) Range() (reflect.Value, reflect.Value, bool) {
	if r.i >= len(r.Items) {
		return reflect.Value{}, reflect.Value{}, true
	}
	v := reflect.ValueOf(r.Items[r.i])
	r.i++
	return reflect.Value{}, v, false
}
func (r *PlainRanger) ProvidesIndex() bool { return false }

// ZeroErr is an error (and a fmt.Stringer) without any state: every value of it is the zero value.
type ZeroErr struct{}

func (ZeroErr) Error() string  { return "zero-err" }
func (ZeroErr) String() string { return "zero-err" }

// PanicStringer is a fmt.Stringer whose String method fails.
type PanicStringer struct{}

func (PanicStringer) String() string { panic(errors.New("String() gave up")) }

// CountMap is a map type that is a fmt.Stringer.
type CountMap map[string]int

func (c CountMap) String() string { return "countmap" }

// Sink is a send-only channel type with a method.
type Sink chan<- string

func (s Sink) String() string { return "sink" }

// NilOKRanger is a custom Ranger whose pointer receiver is prepared for nil: a nil *NilOKRanger is a
// Ranger without elements, not a nil pointer to look through.
type NilOKRanger struct {
	Items []string
	i     int
}

func (r *NilOKRanger) Range() (reflect.Value, reflect.Value, bool) {
	if r == nil || r.i >= len(r.Items) {
		return reflect.Value{}, reflect.Value{}, true
	}
	v := reflect.ValueOf(r.Items[r.i])
	r.i++
	return reflect.Value{}, v, false
}
func (r *NilOKRanger) ProvidesIndex() bool { return false }

// Emb has a field promoted through an embedded pointer, which may be nil.
// interface-typed fields reached through an embedded pointer / an embedded struct of an unexported type
type PEmbI struct {
	Flag, Count, Name, On interface{}
	List                  interface{}
}
type EmbI struct {
	*PEmbI
	Own string
}
type embU struct {
	Flag, Count, Name, On interface{}
	List                  interface{}
}
type EmbU struct {
	embU
	Own string
}

type PEmb struct{ PName string }
type Emb struct {
	*PEmb
	Name string
}

// Level is a numeric kind with a String method: rendered through String(), so it must be escaped.
type Level int

func (l Level) String() string { return "<lvl&" + strconv.Itoa(int(l)) + ">" }

// Code is a numeric kind that is an error.
type Code uint8

func (c Code) Error() string { return "code '" + strconv.Itoa(int(c)) + "' <failed>" }

// StackRanger is a custom Ranger whose underlying kind is a slice: it must be ranged through its
// own Range method (last in, first out, no index), not as a plain slice.
type StackRanger []string

func (s *StackRanger) Range() (reflect.Value, reflect.Value, bool) {
	if len(*s) == 0 {
		return reflect.Value{}, reflect.Value{}, true
	}
	v := (*s)[len(*s)-1]
	*s = (*s)[:len(*s)-1]
	return reflect.Value{}, reflect.ValueOf(v), false
}
func (s *StackRanger) ProvidesIndex() bool { return false }

func ints(xs []int64) []int {
	out := make([]int, len(xs))
	for i, x := range xs {
		out[i] = int(x)
	}
	return out
}

// Build constructs the value a recipe describes.
func Build(r Recipe) interface{} {
	switch r.T {
	case "nil", "":
		return nil
	case "int":
		return int(r.I)
	case "int64":
		return r.I
	case "int8":
		return int8(r.I)
	case "uint":
		return uint(r.I)
	case "uint8":
		return uint8(r.I)
	case "float":
		return r.F
	case "float32":
		return float32(r.F)
	case "string":
		return r.S
	case "bool":
		return r.B
	case "bytes":
		return []byte(r.S)
	case "straddle": // I bytes of filler, then S: with I just below a multiple of 4096 the first character of S straddles a piece boundary
		return strings.Repeat("a", int(r.I)) + r.S
	case "longstring": // S repeated and cut to exactly I bytes
		if r.S == "" {
			return ""
		}
		b := make([]byte, 0, r.I)
		for int64(len(b)) < r.I {
			b = append(b, r.S...)
		}
		return string(b[:r.I])
	case "[]int":
		return ints(r.Is)
	case "[]string":
		return append([]string{}, r.Ss...)
	case "[]bool":
		out := make([]bool, len(r.Is))
		for i, x := range r.Is {
			out[i] = x != 0
		}
		return out
	case "[]any":
		out := make([]interface{}, len(r.Elems))
		for i, e := range r.Elems {
			out[i] = Build(e)
		}
		return out
	case "array":
		xs := ints(r.Is)
		switch len(xs) {
		case 0:
			return [0]int{}
		case 1:
			return [1]int{xs[0]}
		case 2:
			return [2]int{xs[0], xs[1]}
		case 3:
			return [3]int{xs[0], xs[1], xs[2]}
		default:
			return [4]int{xs[0], xs[1], xs[2], xs[3]}
		}
	case "sarray":
		switch len(r.Ss) {
		case 0:
			return [0]string{}
		case 1:
			return [1]string{r.Ss[0]}
		default:
			return [2]string{r.Ss[0], r.Ss[1]}
		}
	case "*[]int":
		x := ints(r.Is)
		return &x
	case "*[]string":
		x := append([]string{}, r.Ss...)
		return &x
	case "nil[]int":
		return []int(nil)
	case "nil*[]int":
		return (*[]int)(nil)
	case "nilmap":
		return map[string]int(nil)
	case "nil*user":
		return (*User)(nil)
	case "nilfunc":
		return (func())(nil)
	case "map[string]int":
		m := map[string]int{}
		for i, k := range r.Keys {
			m[k] = int(r.Is[i])
		}
		return m
	case "map[string]string":
		m := map[string]string{}
		for i, k := range r.Keys {
			m[k] = r.Ss[i]
		}
		return m
	case "map[string]any":
		m := map[string]interface{}{}
		for i, k := range r.Keys {
			m[k] = Build(r.Elems[i])
		}
		return m
	case "renderer-write":
		return RendWrite{S: r.S}
	case "rend-chunks": // Ss: the pieces, B: raw markup after every piece, I: fails after that many pieces (< 0: never)
		return RendChunks{Pieces: append([]string{}, r.Ss...), Raw: r.B, FailAfter: int(r.I)}
	case "map[string]user": // every key holds the User of that name
		m := map[string]User{}
		for i, k := range r.Keys {
			m[k] = User{Name: k, Age: i}
		}
		return m
	case "map[string]pair": // every key holds [2]string{key, key}
		m := map[string][2]string{}
		for _, k := range r.Keys {
			m[k] = [2]string{k, k + "!"}
		}
		return m
	case "map[int]string":
		m := map[int]string{}
		for i, k := range r.Is {
			m[int(k)] = r.Ss[i]
		}
		return m
	case "chan int":
		c := make(chan int, len(r.Is)+1)
		for _, x := range r.Is {
			c <- int(x)
		}
		close(c)
		return c
	case "<-chan int": // what a producer hands out: a channel that can only be received from
		c := make(chan int, len(r.Is)+1)
		for _, x := range r.Is {
			c <- int(x)
		}
		close(c)
		return (<-chan int)(c)
	case "iota": // []int{0, 3, 6, ...} with I elements
		xs := make([]int, r.I)
		for i := range xs {
			xs[i] = 3 * i
		}
		return xs
	case "iota-array": // *[260]int{0, 3, 6, ...}
		var xs [260]int
		for i := range xs {
			xs[i] = 3 * i
		}
		return &xs
	case "map[float64]string-with-nan": // a key that is not equal to itself is still an entry with a value
		return map[float64]string{math.NaN(): "not-a-number", 1: "one", 2: ""}
	case "chan string":
		c := make(chan string, len(r.Ss)+1)
		for _, x := range r.Ss {
			c <- x
		}
		close(c)
		return c
	case "ranger":
		return &IdxRanger{Items: append([]string{}, r.Ss...)}
	case "ranger-plain":
		return &PlainRanger{Items: append([]string{}, r.Ss...)}
	case "stringer":
		return Strg{S: r.S}
	case "ifunc": // a Go function declared to return interface{}; what it returns is IfuncVals[I]
		val := IfuncVals[r.I]
		return func() interface{} { return val }
	case "nilfunc-string":
		return (func(string) string)(nil)
	case "funcholder": // a struct with a func-typed field that is nil
		return struct{ F func(string) string }{}
	case "arr4func": // the slice it is handed must have four elements to convert
		return func(p *[4]int) int { return p[0] }
	case "hetero": // rangers of different kinds in one list (I rotates it)
		ch := make(chan int, 2)
		ch <- 7
		ch <- 8
		close(ch)
		l := []interface{}{[]int{10, 20}, ch, &PlainRanger{Items: []string{"p", "q"}}, map[string]int{"k": 1}, &IdxRanger{Items: []string{"i0"}}, [2]string{"a0", "a1"}, (<-chan int)(ch)}
		l[6] = func() <-chan int { c := make(chan int, 1); c <- 9; close(c); return c }()
		n := int(r.I) % len(l)
		return append(append([]interface{}{}, l[n:]...), l[:n]...)
	case "iface-holder": // collections in slots of interface types that have methods / behind a pointer to an interface
		var any interface{} = []int{4, 5}
		return struct {
			Sorted sort.Interface
			PAny   *interface{}
			Counts fmt.Stringer
			Empty  sort.Interface
		}{Sorted: sort.StringSlice{"b", "a"}, PAny: &any, Counts: CountMap{"n": 2}, Empty: sort.IntSlice{}}
	case "nilok-ranger": // without elements: the typed nil pointer itself
		if len(r.Ss) == 0 {
			return (*NilOKRanger)(nil)
		}
		return &NilOKRanger{Items: append([]string{}, r.Ss...)}
	case "nilok-holder": // the typed nil pointer in a field of its own type and in one of type jet.Ranger
		return struct {
			P *NilOKRanger
			R jet.Ranger
		}{R: (*NilOKRanger)(nil)}
	case "rangerholder": // a struct with a nil field of type jet.Ranger
		return struct{ R jet.Ranger }{}
	case "chan<- int":
		return (chan<- int)(make(chan int, 1))
	case "unexported-string": // (the engine runner puts the field Value itself into the VarMap; for the model it is the string)
		return r.S
	case "reflect-value": // a reflect.Value as a value (helpers for templates that want Kind() / Len() hand such things around)
		return reflect.ValueOf([]int{1, 2})
	case "err-holder": // slots of interface types with methods holding values that are the zero value of their type
		return struct {
			Err   error
			Note  fmt.Stringer
			NoErr error
		}{Err: ZeroErr{}, Note: ZeroErr{}}
	case "panic-stringer":
		return PanicStringer{}
	case "nil-ifaces": // slots of interface types that have methods, with nothing in them
		return struct {
			Err error
			S   fmt.Stringer
		}{}
	case "*chan<- int": // the same behind a pointer
		c := (chan<- int)(make(chan int, 1))
		return &c
	case "sendonly-holder": // a send-only channel of a defined type in a slot of an interface type, and a pointer to one
		c := Sink(make(chan string, 1))
		return struct {
			Sink  fmt.Stringer
			PSink *Sink
		}{Sink: c, PSink: &c}
	case "map[any]int":
		return map[interface{}]int{"a": 1}
	case "nil*valrecv": // a nil pointer whose type has a method with a value receiver
		return (*ValRecv)(nil)
	case "strholder": // slots of type fmt.Stringer whose values could also render themselves: the slot's type decides
		return &StrHolder{Label: RendStr{S: r.S}, List: []fmt.Stringer{RendStr{S: r.S + "0"}, RendStr{S: "1" + r.S}}, Err: RendStr{S: r.S}}
	case "kindstringer": // a value of kind string whose String method says something else than the string it is made of
		return KindStrg("underlying:" + r.S)
	case "*stringer":
		return &Strg{S: r.S}
	case "error":
		return errors.New(r.S)
	case "embiface": // falsy values in interface fields behind an embedded pointer
		return &EmbI{PEmbI: &PEmbI{Flag: false, Count: 0, Name: "", On: true, List: []string{"l1", "l2"}}, Own: "own"}
	case "embuiface": // ... behind an embedded struct of an unexported type
		return EmbU{embU: embU{Flag: false, Count: 0.0, Name: "", On: "yes", List: []string{"u1"}}, Own: "own"}
	case "emb": // S == "" : the embedded pointer is nil
		if r.S == "" {
			return &Emb{Name: "emb-nil"}
		}
		return &Emb{PEmb: &PEmb{PName: r.S}, Name: "emb"}
	case "level":
		return Level(r.I)
	case "code":
		return Code(r.I)
	case "stack-ranger":
		st := StackRanger(append([]string{}, r.Ss...))
		return &st
	case "user":
		u := User{Name: r.S, Age: int(r.I), Tags: append([]string(nil), r.Ss...)}
		if len(r.Elems) > 0 {
			if f, ok := Build(r.Elems[0]).(*User); ok {
				u.Friend = f
			}
		}
		if len(r.Keys) > 0 {
			u.Meta = map[string]interface{}{}
			for i, k := range r.Keys {
				if i+1 < len(r.Elems) {
					u.Meta[k] = Build(r.Elems[i+1])
				}
			}
		}
		return u
	case "*user":
		r2 := r
		r2.T = "user"
		u := Build(r2).(User)
		return &u
	case "ptr": // pointer to whatever Elems[0] builds
		v := reflect.ValueOf(Build(r.Elems[0]))
		p := reflect.New(v.Type())
		p.Elem().Set(v)
		return p.Interface()
	}
	panic(fmt.Sprintf("zoo: unknown recipe type %q", r.T))
}

// Convenience recipe constructors.
func RInt(i int) Recipe         { return Recipe{T: "int", I: int64(i)} }
func RStr(s string) Recipe      { return Recipe{T: "string", S: s} }
func RBool(b bool) Recipe       { return Recipe{T: "bool", B: b} }
func RFloat(f float64) Recipe   { return Recipe{T: "float", F: f} }
func RNil() Recipe              { return Recipe{T: "nil"} }
func RInts(xs ...int64) Recipe  { return Recipe{T: "[]int", Is: xs} }
func RStrs(xs ...string) Recipe { return Recipe{T: "[]string", Ss: xs} }
func RAny(xs ...Recipe) Recipe  { return Recipe{T: "[]any", Elems: xs} }
