// Package mj ("MiniJet") is a JSON-serialisable AST for the documented Jet
// language, a printer from AST to Jet source that records the file and line
// of every action, and an independent, deliberately naive reference
// interpreter (model.go) implementing the documented semantics.
package mj

// Expr kinds
//
//	str num bool nil           literals (S / N / B)
//	var                        identifier (Name)
//	dot                        "."
//	field                      .a.b   on the context (Fields)
//	chain                      A .a.b (Fields)
//	index                      A[B]
//	bin                        A Name B      (+ - * / % == != < <= > >= && ||)
//	not / neg                  !A / -A
//	tern                       A ? B : C
//	call                       Name(Args...)
//	pipe                       A | Name: Args...   (value piped into a function or safe writer)
//	paren                      (A)
type Expr struct {
	K      string   `json:"k"`
	S      string   `json:"s,omitempty"`
	N      float64  `json:"n,omitempty"`
	B      bool     `json:"b,omitempty"`
	Name   string   `json:"name,omitempty"`
	Fields []string `json:"fields,omitempty"`
	A      *Expr    `json:"a,omitempty"`
	B2     *Expr    `json:"b2,omitempty"`
	C      *Expr    `json:"c,omitempty"`
	Args   []*Expr  `json:"args,omitempty"`
	Prefix bool     `json:"prefix,omitempty"` // call printed in prefix form  f: a, b
}

type Param struct {
	Name string `json:"name"`
	E    *Expr  `json:"e,omitempty"` // default (block) / argument (yield); nil = none
}

// Node kinds
//
//	text       Text
//	comment    Text
//	print      E                               {{ E }}
//	let / set  Names, Es [, Lookup]            {{ a, b := e1, e2 }}   {{ v, ok := m[k] }}
//	if         Hdr?, E, Body, Else             Else may hold a single "if" node flagged ElseIf
//	range      Names, Decl, E, Body, Else
//	block      Name, Params, Ctx, Body, Content (default content)
//	yield      Name, Params, Ctx, Content (nil = none)
//	ycontent   Ctx                             {{ yield content [ctx] }}
//	include    E (name), Ctx
//	return     E
//	try        Body, HasCatch, Name (catch var), Catch
//	fail       Src, Class                      an action that must fail when executed (printed verbatim)
type Node struct {
	K        string   `json:"k"`
	Text     string   `json:"text,omitempty"`
	E        *Expr    `json:"e,omitempty"`
	Names    []string `json:"names,omitempty"`
	Es       []*Expr  `json:"es,omitempty"`
	Lookup   bool     `json:"lookup,omitempty"`
	Decl     bool     `json:"decl,omitempty"`
	Hdr      *Node    `json:"hdr,omitempty"`
	Body     []*Node  `json:"body,omitempty"`
	Else     []*Node  `json:"else,omitempty"`
	HasElse  bool     `json:"has_else,omitempty"`
	ElseIf   bool     `json:"else_if,omitempty"` // this "if" is printed as {{else if ...}} of its parent
	Content  []*Node  `json:"content,omitempty"`
	HasCont  bool     `json:"has_content,omitempty"`
	Catch    []*Node  `json:"catch,omitempty"`
	HasCatch bool     `json:"has_catch,omitempty"`
	Name     string   `json:"name,omitempty"`
	Params   []Param  `json:"params,omitempty"`
	Ctx      *Expr    `json:"ctx,omitempty"`
	Src      string   `json:"src,omitempty"`
	Class    string   `json:"class,omitempty"`
	Partial  string   `json:"partial,omitempty"` // fail: bytes the failing action may emit before it fails
	TrimL    bool     `json:"triml,omitempty"`
	TrimR    bool     `json:"trimr,omitempty"`
	Tag      string   `json:"tag,omitempty"` // free label for generators / oracles

	// filled by the printer
	File string `json:"-"`
	Line int    `json:"-"`
	// effective text of a text node after trim markers of neighbouring actions were applied;
	// adjacent text nodes form one run whose text is carried by the first node
	eff    string
	hasEff bool
}

// EffText is what a text node contributes to the output (after trimming).
func (n *Node) EffText() string {
	if n.hasEff {
		return n.eff
	}
	return n.Text
}

type File struct {
	Path    string   `json:"path"`
	Extends string   `json:"extends,omitempty"`
	Imports []string `json:"imports,omitempty"`
	HdrWS   []string `json:"hdr_ws,omitempty"` // whitespace printed after the i-th header clause (extends first, then imports)
	Body    []*Node  `json:"body"`
	Broken  bool     `json:"broken,omitempty"` // printed as unparsable source; looking it up fails
}

// Program is a template set plus everything needed to execute its entry.
type Program struct {
	Files   []*File           `json:"files"`
	Entry   string            `json:"entry"`
	Vars    map[string]Recipe `json:"vars,omitempty"`    // VarMap passed to Execute
	Globals map[string]Recipe `json:"globals,omitempty"` // Set globals
	Data    *Recipe           `json:"data,omitempty"`    // context
	Escaper string            `json:"escaper,omitempty"` // "" default HTML | "nil" | "custom"
	// BrokenFirst > 0: before the observed Execute the same template is executed once, on the same goroutine,
	// into a destination that accepts this many bytes and then fails (a connection closed mid-response).
	// What that execution reports is not judged; the observed one must be unaffected by it.
	BrokenFirst int `json:"broken_first,omitempty"`
	// Late: files that do not exist yet while the entry template is executed a first time (unjudged) and are
	// put into the loader before the observed Execute: a template that exists now is found now, whatever an
	// earlier lookup of its name came to.
	Late []string `json:"late,omitempty"`
	// Gone (not with Dev): files that are deleted from the loader after the entry template was executed a first time
	// (unjudged): what a Set has loaded it has, for include, exec and includeIfExists alike.
	Gone []string `json:"gone,omitempty"`
	// Dev: the Set is in development mode (nothing is cached; every lookup goes to the loader).
	Dev bool `json:"dev,omitempty"`
	// PriorEntry: a template of the same Set that is executed (with PriorData as context, unjudged) on the
	// same goroutine right before the observed Execute, which must not see anything of it.
	PriorEntry string  `json:"prior_entry,omitempty"`
	PriorData  *Recipe `json:"prior_data,omitempty"`
	// ForeignLayout != "": the Set shares its Cache object with another Set that has this escaper
	// ("html" | "nil" | "custom") and no globals, and that other Set has already loaded every template some
	// file extends. The Set a template was obtained from governs its execution, whoever parsed its layout.
	ForeignLayout string `json:"foreign_layout,omitempty"`
	// FailingWriter > 0: the destination of the observed Execute accepts FailingWriter-1 bytes and fails from
	// then on; the Outcome's Out is what it accepted.
	FailingWriter int `json:"failing_writer,omitempty"`
	// FailOnPrefix != "": the destination of the observed Execute refuses, once, the first Write whose payload
	// begins with these bytes (a transient failure); Outcome.Out is what it accepted, Outcome.PanicVal is
	// "refused" if that Write came.
	FailOnPrefix string `json:"fail_on_prefix,omitempty"`
	// NilVars: Execute is handed a nil VarMap (Vars must be empty); functions are registered as globals instead.
	NilVars bool `json:"nil_vars,omitempty"`
}

// ---- constructors used by generators ----

func Str(s string) *Expr                  { return &Expr{K: "str", S: s} }
func Num(n float64) *Expr                 { return &Expr{K: "num", N: n} }
func Bool(b bool) *Expr                   { return &Expr{K: "bool", B: b} }
func Nil() *Expr                          { return &Expr{K: "nil"} }
func Var(n string) *Expr                  { return &Expr{K: "var", Name: n} }
func Dot() *Expr                          { return &Expr{K: "dot"} }
func Field(f ...string) *Expr             { return &Expr{K: "field", Fields: f} }
func Chain(a *Expr, f ...string) *Expr    { return &Expr{K: "chain", A: a, Fields: f} }
func Index(a, i *Expr) *Expr              { return &Expr{K: "index", A: a, B2: i} }
func Bin(op string, a, b *Expr) *Expr     { return &Expr{K: "bin", Name: op, A: a, B2: b} }
func Not(a *Expr) *Expr                   { return &Expr{K: "not", A: a} }
func Tern(c, a, b *Expr) *Expr            { return &Expr{K: "tern", A: c, B2: a, C: b} }
func Call(fn string, args ...*Expr) *Expr { return &Expr{K: "call", Name: fn, Args: args} }
func Pipe(a *Expr, fn string, args ...*Expr) *Expr {
	return &Expr{K: "pipe", A: a, Name: fn, Args: args}
}
func Paren(a *Expr) *Expr { return &Expr{K: "paren", A: a} }

func Text(s string) *Node { return &Node{K: "text", Text: s} }
func Print(e *Expr) *Node { return &Node{K: "print", E: e} }
func Let(name string, e *Expr) *Node {
	return &Node{K: "let", Names: []string{name}, Es: []*Expr{e}, Decl: true}
}
func Set(name string, e *Expr) *Node { return &Node{K: "set", Names: []string{name}, Es: []*Expr{e}} }
func If(c *Expr, body, els []*Node) *Node {
	return &Node{K: "if", E: c, Body: body, Else: els, HasElse: els != nil}
}

// PruneVars drops Execute variables the program never mentions (keeps cases small).
func PruneVars(p *Program) {
	used := map[string]bool{}
	var ex func(e *Expr)
	ex = func(e *Expr) {
		if e == nil {
			return
		}
		if e.K == "var" || e.K == "call" || e.K == "pipe" {
			used[e.Name] = true
		}
		ex(e.A)
		ex(e.B2)
		ex(e.C)
		for _, a := range e.Args {
			ex(a)
		}
	}
	var ns func(list []*Node)
	ns = func(list []*Node) {
		for _, n := range list {
			ex(n.E)
			ex(n.Ctx)
			for _, e := range n.Es {
				ex(e)
			}
			for _, p := range n.Params {
				ex(p.E)
			}
			if n.Hdr != nil {
				ns([]*Node{n.Hdr})
			}
			ns(n.Body)
			ns(n.Else)
			ns(n.Content)
			ns(n.Catch)
		}
	}
	for _, f := range p.Files {
		ns(f.Body)
	}
	for k := range p.Vars {
		if !used[k] {
			delete(p.Vars, k)
		}
	}
}
