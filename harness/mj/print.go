package mj

import (
	"strconv"
	"strings"
)

// Printer turns a Program into Jet source. It records, for every node, the
// file it was printed into and the 1-based line its action starts on.
type Printer struct {
	L, R   string // action delimiters (default {{ }})
	CL, CR string
	b      strings.Builder
	file   string
	line   int
	stream []tok
}

type tok struct {
	n            *Node
	kind         byte // 't' text, 'a' action, 'c' comment
	trimL, trimR bool
}

const trimSet = " \t\r\n"

// applyTrims computes the effective text of every text node of the file just printed.
func (pr *Printer) applyTrims() {
	i := 0
	for i < len(pr.stream) {
		if pr.stream[i].kind != 't' {
			i++
			continue
		}
		j := i
		var run strings.Builder
		for j < len(pr.stream) && pr.stream[j].kind == 't' {
			run.WriteString(pr.stream[j].n.Text)
			j++
		}
		text := run.String()
		if i > 0 && pr.stream[i-1].kind == 'a' && pr.stream[i-1].trimR {
			text = strings.TrimLeft(text, trimSet)
		}
		if j < len(pr.stream) && pr.stream[j].kind == 'a' && pr.stream[j].trimL {
			text = strings.TrimRight(text, trimSet)
		}
		for k := i; k < j; k++ {
			pr.stream[k].n.eff, pr.stream[k].n.hasEff = "", true
		}
		pr.stream[i].n.eff = text
		i = j
	}
}

func NewPrinter() *Printer { return &Printer{L: "{{", R: "}}", CL: "{*", CR: "*}"} }

// Sources prints every file of p.
func (pr *Printer) Sources(p *Program) map[string]string {
	out := map[string]string{}
	for _, f := range p.Files {
		out[f.Path] = pr.File(f)
	}
	return out
}

func (pr *Printer) File(f *File) string {
	pr.b.Reset()
	pr.file = f.Path
	pr.line = 1
	pr.stream = pr.stream[:0]
	if f.Broken {
		return "broken " + pr.L + "if" + pr.R + " template"
	}
	clause := 0
	ws := func() {
		if clause < len(f.HdrWS) {
			if strings.TrimSpace(f.HdrWS[clause]) != "" {
				panic(OutOfModel{"header whitespace must be whitespace"})
			}
			pr.w(f.HdrWS[clause])
		}
		clause++
	}
	if f.Extends != "" {
		pr.w(pr.L + "extends " + strconv.Quote(f.Extends) + pr.R)
		ws()
	}
	for _, im := range f.Imports {
		pr.w(pr.L + "import " + strconv.Quote(im) + pr.R)
		ws()
	}
	pr.list(f.Body)
	pr.applyTrims()
	return pr.b.String()
}

func (pr *Printer) w(s string) {
	pr.b.WriteString(s)
	pr.line += strings.Count(s, "\n")
}

func (pr *Printer) act(n *Node, inner string) {
	if n != nil {
		n.File, n.Line = pr.file, pr.line
	}
	pr.stream = append(pr.stream, tok{n: n, kind: 'a', trimL: n != nil && n.TrimL, trimR: n != nil && n.TrimR})
	l, r := pr.L, pr.R
	if n != nil && n.TrimL {
		l += "- "
	} else {
		l += " "
	}
	if n != nil && n.TrimR {
		r = " -" + r
	} else {
		r = " " + r
	}
	pr.w(l + inner + r)
}

func (pr *Printer) list(ns []*Node) {
	for _, n := range ns {
		pr.node(n)
	}
}

func (pr *Printer) params(ps []Param) string {
	var parts []string
	for _, p := range ps {
		if p.E == nil {
			parts = append(parts, p.Name)
		} else {
			parts = append(parts, p.Name+"="+ExprString(p.E))
		}
	}
	return "(" + strings.Join(parts, ", ") + ")"
}

func assignString(n *Node) string {
	op := " = "
	if n.Decl {
		op = " := "
	}
	var rhs []string
	for _, e := range n.Es {
		rhs = append(rhs, ExprString(e))
	}
	return strings.Join(n.Names, ", ") + op + strings.Join(rhs, ", ")
}

func (pr *Printer) node(n *Node) {
	switch n.K {
	case "text":
		n.File, n.Line = pr.file, pr.line
		if strings.Contains(n.Text, pr.L) || strings.Contains(n.Text, pr.CL) || strings.HasSuffix(n.Text, pr.L[:1]) {
			panic(OutOfModel{"text node would form a delimiter: " + n.Text})
		}
		pr.stream = append(pr.stream, tok{n: n, kind: 't'})
		pr.w(n.Text)
	case "comment":
		n.File, n.Line = pr.file, pr.line
		pr.stream = append(pr.stream, tok{n: n, kind: 'c'})
		pr.w(pr.CL + n.Text + pr.CR)
	case "print":
		pr.act(n, TopExprString(n.E))
	case "let", "set":
		pr.act(n, assignString(n))
	case "fail":
		pr.act(n, n.Src)
	case "return":
		pr.act(n, "return "+ExprString(n.E))
	case "include":
		s := "include " + ExprString(n.E)
		if n.Ctx != nil {
			s += " " + ExprString(n.Ctx)
		}
		pr.act(n, s)
	case "ycontent":
		s := "yield content"
		if n.Ctx != nil {
			s += " " + ExprString(n.Ctx)
		}
		pr.act(n, s)
	case "yield":
		s := "yield " + n.Name + pr.params(n.Params)
		if n.Ctx != nil {
			s += " " + ExprString(n.Ctx)
		}
		if n.HasCont {
			pr.act(n, s+" content")
			pr.list(n.Content)
			pr.act(nil, "end")
		} else {
			pr.act(n, s)
		}
	case "block":
		s := "block " + n.Name + pr.params(n.Params)
		if n.Ctx != nil {
			s += " " + ExprString(n.Ctx)
		}
		pr.act(n, s)
		pr.list(n.Body)
		if n.HasCont {
			pr.act(nil, "content")
			pr.list(n.Content)
		}
		pr.act(nil, "end")
	case "if":
		pr.ifNode(n, "if ")
		pr.act(nil, "end")
	case "range":
		s := "range "
		if len(n.Names) > 0 {
			op := " = "
			if n.Decl {
				op = " := "
			}
			s += strings.Join(n.Names, ", ") + op
		}
		pr.act(n, s+ExprString(n.E))
		pr.list(n.Body)
		if n.HasElse {
			pr.act(nil, "else")
			pr.list(n.Else)
		}
		pr.act(nil, "end")
	case "try":
		pr.act(n, "try")
		pr.list(n.Body)
		if n.HasCatch {
			if n.Name != "" {
				pr.act(nil, "catch "+n.Name)
			} else {
				pr.act(nil, "catch")
			}
			pr.list(n.Catch)
		}
		pr.act(nil, "end")
	default:
		panic("mj printer: unknown node kind " + n.K)
	}
}

func (pr *Printer) ifNode(n *Node, kw string) {
	s := kw
	if n.Hdr != nil {
		s += assignString(n.Hdr) + "; "
	}
	pr.act(n, s+ExprString(n.E))
	pr.list(n.Body)
	if n.HasElse {
		if len(n.Else) == 1 && n.Else[0].K == "if" && n.Else[0].ElseIf {
			pr.ifNode(n.Else[0], "else if ")
			return
		}
		pr.act(nil, "else")
		pr.list(n.Else)
	}
}

func atomic(e *Expr) bool {
	switch e.K {
	case "bin", "tern", "not", "neg", "pipe":
		return false
	case "num":
		return e.N >= 0
	}
	return true
}

func sub(e *Expr) string {
	if atomic(e) {
		return ExprString(e)
	}
	return "(" + ExprString(e) + ")"
}

func argList(args []*Expr) string {
	var parts []string
	for _, a := range args {
		parts = append(parts, ExprString(a))
	}
	return strings.Join(parts, ", ")
}

// TopExprString prints an expression in action position, where pipelines and
// the prefix call form are allowed.
func TopExprString(e *Expr) string {
	switch e.K {
	case "pipe":
		s := TopExprString(e.A) + " | " + e.Name
		if len(e.Args) > 0 {
			s += ": " + argList(e.Args)
		}
		return s
	case "call":
		if e.Prefix && len(e.Args) > 0 {
			return e.Name + ": " + argList(e.Args)
		}
	}
	return ExprString(e)
}

func ExprString(e *Expr) string {
	switch e.K {
	case "str":
		return strconv.Quote(e.S)
	case "num":
		return strconv.FormatFloat(e.N, 'f', -1, 64)
	case "bool":
		return strconv.FormatBool(e.B)
	case "nil":
		return "nil"
	case "var":
		return e.Name
	case "dot":
		return "."
	case "field":
		return "." + strings.Join(e.Fields, ".")
	case "chain":
		return sub(e.A) + "." + strings.Join(e.Fields, ".")
	case "index":
		return sub(e.A) + "[" + ExprString(e.B2) + "]"
	case "bin":
		return sub(e.A) + " " + e.Name + " " + sub(e.B2)
	case "not":
		return "!" + sub(e.A)
	case "neg":
		return "-" + sub(e.A)
	case "tern":
		return sub(e.A) + " ? " + sub(e.B2) + " : " + sub(e.C)
	case "call":
		return e.Name + "(" + argList(e.Args) + ")"
	case "paren":
		return "(" + ExprString(e.A) + ")"
	case "pipe":
		panic("mj printer: pipe below action level")
	}
	panic("mj printer: unknown expr kind " + e.K)
}
