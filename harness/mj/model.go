package mj

// Reference interpreter for MiniJet. Deliberately naive: explicit scope
// frames, explicit block tables, transactional try, include as "push frame +
// push block table", output into a stack of byte buffers. It implements the
// documented semantics (property statements, docs, and the engine choices
// pinned by the existing suite that DESIGN.md Appendix A lists) — not the
// engine's data structures.

import (
	"bytes"
	"fmt"
	"html/template"
	"math"
	"path"
	"reflect"
	"sort"
	"strconv"
	"strings"
	"unicode/utf8"
)

// ModelError is an evaluation failure at a known position.
type ModelError struct {
	File  string
	Line  int
	Class string
	Msg   string
	// Payload: the failure is a Go panic with this string as its value; a catch variable holds the string itself
	Payload string
	// NilValue: the failure is a Go panic whose value is a nil pointer (in an error): the catch variable holds that
	NilValue bool
}

func (e *ModelError) Error() string {
	return fmt.Sprintf("model error (%q:%d) [%s] %s", e.File, e.Line, e.Class, e.Msg)
}

// OutOfModel is raised when a program leaves what the model defines; the
// case is then discarded (a generator problem, never a verdict).
type OutOfModel struct{ Why string }

type hidden struct{ b bool }       // value of includeIfExists: renders nothing
type fnValue struct{ name string } // a built-in / registered function used as a value
// iieReturn: what a template run by includeIfExists() returned, on its way to the statement around the call
type iieReturn struct{ v interface{} }

type errValue struct{ e *ModelError } // value bound by {{catch e}}

type blockDef struct {
	node *Node
	file *File
}

type frame struct {
	vars   map[string]interface{}
	parent *frame
	blocks map[string]*blockDef
}

type closure struct {
	nodes []*Node
	scope *frame
	outer *closure
}

type Result struct {
	Out   string
	Err   *ModelError
	Calls []string               // probe call log
	Vars  map[string]interface{} // the caller's VarMap after execution
}

type Interp struct {
	prog    *Program
	files   map[string]*File
	tables  map[string]map[string]*blockDef
	writers []*bytes.Buffer // writers[0] is the real destination; nil entry = discard
	iieRet  *iieReturn      // see iieReturn
	scope   *frame
	ctx     interface{}
	content *closure
	globals map[string]interface{}
	calls   []string
	depth   int
	steps   int
	Exts    []string
	// Funcs lets a check register extra pure functions the model knows (name -> implementation).
	Funcs map[string]func(in *Interp, args []interface{}) interface{}
}

var DefaultExts = []string{"", ".jet", ".html.jet", ".jet.html"}

func NewInterp(p *Program) *Interp {
	in := &Interp{prog: p, files: map[string]*File{}, tables: map[string]map[string]*blockDef{}, Exts: DefaultExts, Funcs: map[string]func(*Interp, []interface{}) interface{}{}}
	for _, f := range p.Files {
		in.files[f.Path] = f
	}
	return in
}

// Run executes the entry template with vars/globals/data built by the caller.
func (in *Interp) Run(vars map[string]interface{}, globals map[string]interface{}, data interface{}) (res Result) {
	in.globals = globals
	root := &bytes.Buffer{}
	in.writers = []*bytes.Buffer{root}
	vm := map[string]interface{}{}
	for k, v := range vars {
		vm[k] = v
	}
	defer func() {
		res.Out = root.String()
		res.Calls = in.calls
		res.Vars = vm
		if r := recover(); r != nil {
			if me, ok := r.(*ModelError); ok {
				res.Err = me
				return
			}
			panic(r)
		}
	}()
	leaf := in.lookupFile(in.prog.Entry, "/")
	if leaf == nil {
		panic(OutOfModel{"entry template missing: " + in.prog.Entry})
	}
	in.scope = &frame{vars: vm, blocks: in.table(leaf)}
	in.ctx = data
	in.list(in.rootOf(leaf))
	return
}

// ---- template sets ----

func (in *Interp) lookupFile(name, from string) *File {
	p := name
	if !strings.HasPrefix(p, "/") {
		p = path.Join(path.Dir(from), p)
	}
	p = path.Clean(p)
	for _, e := range in.Exts {
		if f, ok := in.files[p+e]; ok {
			return f
		}
	}
	return nil
}

func (in *Interp) ancestor(f *File) *File {
	for i := 0; f.Extends != ""; i++ {
		if i > 20 {
			panic(OutOfModel{"extends cycle"})
		}
		g := in.lookupFile(f.Extends, f.Path)
		if g == nil {
			panic(OutOfModel{"extends target missing: " + f.Extends})
		}
		f = g
	}
	return f
}

// rootOf returns the body that executing f renders: the root ancestor's,
// minus whitespace-only text next to leading extends/import clauses.
func (in *Interp) rootOf(f *File) []*Node {
	a := in.ancestor(f)
	body := a.Body
	if a.Extends == "" && len(a.Imports) == 0 {
		return body
	}
	// Whitespace-only text next to the leading extends/import clauses is dropped. The whitespace
	// printed after the last clause belongs to the first text token of the body.
	hw := ""
	if last := len(a.Imports) - 1 + map[bool]int{true: 1, false: 0}[a.Extends != ""]; last >= 0 && last < len(a.HdrWS) {
		hw = a.HdrWS[last]
	}
	for len(body) > 0 {
		if body[0].K == "comment" {
			body = body[1:]
			hw = ""
			continue
		}
		if body[0].K != "text" {
			break
		}
		if strings.TrimSpace(hw+body[0].EffText()) == "" {
			body = body[1:]
			continue
		}
		break
	}
	if hw != "" && len(body) > 0 && body[0].K == "text" && body[0].EffText() != "" {
		first := *body[0]
		first.eff, first.hasEff = hw+body[0].EffText(), true
		body = append([]*Node{&first}, body[1:]...)
	}
	return body
}

func collectBlocks(ns []*Node, f *File, into map[string]*blockDef) {
	for _, n := range ns {
		if n.K == "block" {
			into[n.Name] = &blockDef{node: n, file: f}
		}
		if n.Hdr != nil {
			collectBlocks([]*Node{n.Hdr}, f, into)
		}
		collectBlocks(n.Body, f, into)
		collectBlocks(n.Else, f, into)
		collectBlocks(n.Content, f, into)
		collectBlocks(n.Catch, f, into)
	}
}

// table(T) = table(extends(T)) <| table(import_1) <| ... <| own(T)   (later wins)
func (in *Interp) table(f *File) map[string]*blockDef {
	if t, ok := in.tables[f.Path]; ok {
		return t
	}
	in.depth++
	if in.depth > 30 {
		panic(OutOfModel{"import/extends cycle"})
	}
	defer func() { in.depth-- }()
	t := map[string]*blockDef{}
	if f.Extends != "" {
		g := in.lookupFile(f.Extends, f.Path)
		if g == nil {
			panic(OutOfModel{"extends target missing"})
		}
		for k, v := range in.table(g) {
			t[k] = v
		}
	}
	for _, im := range f.Imports {
		g := in.lookupFile(im, f.Path)
		if g == nil {
			panic(OutOfModel{"import target missing"})
		}
		for k, v := range in.table(g) {
			t[k] = v
		}
	}
	collectBlocks(f.Body, f, t)
	in.tables[f.Path] = t
	return t
}

func (in *Interp) findBlock(name string) *blockDef {
	for fr := in.scope; fr != nil; fr = fr.parent {
		if fr.blocks != nil {
			if b, ok := fr.blocks[name]; ok {
				return b
			}
		}
	}
	return nil
}

// ---- output ----

func (in *Interp) raw(b []byte) {
	w := in.writers[len(in.writers)-1]
	if w != nil {
		w.Write(b)
	}
}

func HTMLEscape(b []byte) []byte {
	var out []byte
	for _, c := range b {
		switch c {
		case '"':
			out = append(out, "&#34;"...)
		case '\'':
			out = append(out, "&#39;"...)
		case '&':
			out = append(out, "&amp;"...)
		case '<':
			out = append(out, "&lt;"...)
		case '>':
			out = append(out, "&gt;"...)
		case 0:
			out = append(out, "�"...)
		default:
			out = append(out, c)
		}
	}
	return out
}

// CustomEscape is byte-wise, neither identity nor idempotent.
func CustomEscape(b []byte) []byte {
	var out []byte
	for _, c := range b {
		switch c {
		case 'x':
			out = append(out, "xx"...)
		case '<':
			out = append(out, "<<"...)
		case '&':
			out = append(out, "&&"...)
		case '1', '7', 'e', 'r':
			out = append(out, c, c) // digits and the letters of true/false are not exempt
		default:
			out = append(out, c)
		}
	}
	return out
}

func (in *Interp) escape(b []byte) []byte {
	switch in.prog.Escaper {
	case "nil":
		return b
	case "custom":
		return CustomEscape(b)
	}
	return HTMLEscape(b)
}

// escapeWritten is what Runtime.Write makes of b: the escaper sees whole characters, and an incomplete
// character that b ends in is handed over on its own right away (nothing waits for a later write).
func (in *Interp) escapeWritten(b []byte) []byte {
	cut := len(b)
	for i := 1; i < utf8.UTFMax && i <= len(b); i++ {
		if c := b[len(b)-i]; utf8.RuneStart(c) {
			if c >= utf8.RuneSelf && !utf8.FullRune(b[len(b)-i:]) {
				cut = len(b) - i
			}
			break
		}
	}
	if in.prog.Escaper == "nil" {
		return b
	}
	var out []byte
	if cut > 0 {
		out = append(out, in.escape(b[:cut])...)
	}
	if cut < len(b) {
		out = append(out, in.escape(b[cut:])...)
	}
	return out
}

func (in *Interp) renderChunks(n *Node, x RendChunks) {
	for i, p := range x.Pieces {
		if i == x.FailAfter {
			in.fail(n, "renderer-failed", "renderer gave up after %d pieces", i)
		}
		in.raw(in.escapeWritten([]byte(p)))
		if x.Raw {
			in.raw([]byte(RendChunksRaw))
		}
	}
	if x.FailAfter >= len(x.Pieces) {
		in.fail(n, "renderer-failed", "renderer gave up after %d pieces", len(x.Pieces))
	}
}

func safeWriter(name string) (func([]byte) []byte, bool) {
	switch name {
	case "raw", "unsafe":
		return func(b []byte) []byte { return b }, true
	case "safeHtml":
		return HTMLEscape, true
	case "safeJs":
		return func(b []byte) []byte {
			var buf bytes.Buffer
			template.JSEscape(&buf, b)
			return buf.Bytes()
		}, true
	case "swCustom": // user-supplied SafeWriter registered by the checks
		return func(b []byte) []byte { return bytes.ReplaceAll(b, []byte("<"), []byte("[lt]")) }, true
	}
	return nil, false
}

var stringerT = reflect.TypeOf((*fmt.Stringer)(nil)).Elem()
var errorT = reflect.TypeOf((*error)(nil)).Elem()

// PrintValue is the model's printer for rendered values.
func PrintValue(v interface{}) []byte {
	if v == nil {
		return nil
	}
	switch x := v.(type) {
	case hidden:
		return nil
	case errValue:
		if x.e.Payload != "" {
			return []byte(x.e.Payload)
		}
		panic(OutOfModel{"the wording of an engine error is printed"})
	case RendWrite:
		return []byte(x.S)
	}
	rv := reflect.ValueOf(v)
	for i := 0; i < 2; i++ {
		if rv.Kind() != reflect.Ptr || rv.IsNil() || rv.Type().Implements(stringerT) || rv.Type().Implements(errorT) {
			break
		}
		rv = rv.Elem()
	}
	if rv.Type().Implements(stringerT) {
		return []byte(rv.Interface().(fmt.Stringer).String())
	}
	if rv.Type().Implements(errorT) {
		return []byte(rv.Interface().(error).Error())
	}
	switch rv.Kind() {
	case reflect.String:
		return []byte(rv.String())
	case reflect.Int, reflect.Int8, reflect.Int16, reflect.Int32, reflect.Int64:
		return []byte(strconv.FormatInt(rv.Int(), 10))
	case reflect.Uint, reflect.Uint8, reflect.Uint16, reflect.Uint32, reflect.Uint64:
		return []byte(strconv.FormatUint(rv.Uint(), 10))
	case reflect.Float32, reflect.Float64:
		if math.IsNaN(rv.Float()) {
			return []byte("Nan") // (the printer's spelling; how a NaN is written is not part of any statement)
		}
		return []byte(strconv.FormatFloat(rv.Float(), 'f', -1, 64))
	case reflect.Bool:
		return []byte(strconv.FormatBool(rv.Bool()))
	case reflect.Slice:
		if rv.Type().Elem().Kind() == reflect.Uint8 {
			return rv.Bytes()
		}
	}
	return []byte(fmt.Sprint(rv.Interface()))
}

// ---- errors ----

func (in *Interp) fail(n *Node, class, format string, a ...interface{}) {
	panic(&ModelError{File: n.File, Line: n.Line, Class: class, Msg: fmt.Sprintf(format, a...)})
}

// ---- statements ----

func (in *Interp) push(blocks map[string]*blockDef) {
	in.scope = &frame{vars: map[string]interface{}{}, parent: in.scope, blocks: blocks}
}

// pop is nil-safe: while a ModelError unwinds, deferred pops run against whatever scope a
// content closure had switched to; try restores the real scope from its snapshot afterwards.
func (in *Interp) pop() {
	if in.scope != nil {
		in.scope = in.scope.parent
	}
}

func (in *Interp) tick() {
	in.steps++
	if in.steps > 200000 {
		panic(OutOfModel{"step budget"})
	}
}

// list runs a body in its own scope; returns the pending return value.
func (in *Interp) list(ns []*Node) (ret interface{}, has bool) {
	in.depth++
	if in.depth > 60 {
		panic(OutOfModel{"nesting budget"})
	}
	in.push(nil)
	defer func() { in.pop(); in.depth-- }()
	for _, n := range ns {
		if r, h := in.stmt(n); h {
			ret, has = r, true
		}
	}
	return
}

func (in *Interp) assign(n *Node, at *Node) {
	if n.Lookup {
		idx := n.Es[0]
		if idx.K != "index" {
			panic(OutOfModel{"lookup form needs an index expression"})
		}
		v, present := in.indexLookup(at, in.eval(at, idx.A), in.eval(at, idx.B2))
		in.bind(n, at, n.Names[0], v)
		in.bind(n, at, n.Names[1], present)
		return
	}
	for i, name := range n.Names {
		in.bind(n, at, name, in.eval(at, n.Es[i]))
	}
}

func (in *Interp) bind(n *Node, at *Node, name string, v interface{}) {
	if name == "_" {
		return
	}
	if n.Decl {
		in.scope.vars[name] = v
		return
	}
	for fr := in.scope; fr != nil; fr = fr.parent {
		if _, ok := fr.vars[name]; ok {
			fr.vars[name] = v
			return
		}
	}
	in.fail(at, "assign-undeclared", "%s = … but no such variable", name)
}

func (in *Interp) stmt(n *Node) (ret interface{}, has bool) {
	in.tick()
	switch n.K {
	case "text":
		in.raw([]byte(n.EffText()))
	case "comment":
	case "print":
		in.iieRet = nil
		v, written := in.evalTop(n, n.E)
		if rc, ok := v.(RendChunks); ok && !written {
			in.renderChunks(n, rc)
		} else if !written {
			in.raw(in.escape(PrintValue(v)))
		}
		if r := in.iieRet; r != nil {
			in.iieRet = nil
			return r.v, true
		}
	case "let", "set":
		in.assign(n, n)
	case "fail":
		if n.Class == "nil-error-panic" {
			panic(&ModelError{File: n.File, Line: n.Line, Class: n.Class, Msg: "generated failing action " + n.Src, NilValue: true})
		}
		if n.Class == "string-panic" {
			panic(&ModelError{File: n.File, Line: n.Line, Class: n.Class, Msg: "generated failing action " + n.Src, Payload: n.Text})
		}
		in.fail(n, n.Class, "generated failing action %s", n.Src)
	case "return":
		// the last return that was executed counts, also one whose value is nil
		return in.eval(n, n.E), true
	case "if":
		if n.Hdr != nil && n.Hdr.Decl {
			in.push(nil)
			defer in.pop()
		}
		if n.Hdr != nil {
			in.assign(n.Hdr, n)
		}
		if Truthy(in.eval(n, n.E)) {
			return in.list(n.Body)
		} else if n.HasElse {
			return in.list(n.Else)
		}
	case "range":
		return in.rangeStmt(n)
	case "block":
		def := in.findBlock(n.Name)
		if def == nil {
			def = &blockDef{node: n}
		}
		return in.invoke(n, def.node, def.node.Params, def.node.Ctx, def.node.Content, def.node.HasCont)
	case "yield":
		def := in.findBlock(n.Name)
		if def == nil {
			in.fail(n, "unknown-block", "yield of unknown block %s", n.Name)
		}
		return in.invoke(n, def.node, n.Params, n.Ctx, n.Content, n.HasCont)
	case "ycontent":
		c := in.content
		if c == nil {
			return
		}
		savedScope, savedContent, savedCtx := in.scope, in.content, in.ctx
		in.scope, in.content = c.scope, c.outer
		if n.Ctx != nil {
			in.ctx = in.eval(n, n.Ctx)
		}
		// (a return executed in the content counts like one executed anywhere else in the template)
		r, h := in.list(c.nodes)
		in.scope, in.content, in.ctx = savedScope, savedContent, savedCtx
		return r, h
	case "include":
		return in.include(n)
	case "try":
		return in.try(n)
	default:
		panic("mj model: unknown node kind " + n.K)
	}
	return nil, false
}

func (in *Interp) invoke(site *Node, def *Node, args []Param, ctxExpr *Expr, content []*Node, hasContent bool) (ret interface{}, has bool) {
	need := len(def.Params) > 0 || len(args) > 0
	if need {
		in.push(nil)
		defer in.pop()
		for _, a := range args {
			if a.E == nil {
				in.fail(site, "yield-arg-without-value", "argument %s has no value", a.Name)
			}
			in.scope.vars[a.Name] = in.eval(site, a.E)
		}
		for _, p := range def.Params {
			if _, ok := in.scope.vars[p.Name]; ok {
				continue
			}
			if p.E == nil {
				in.scope.vars[p.Name] = false
			} else {
				in.scope.vars[p.Name] = in.eval(site, p.E)
			}
		}
	}
	savedContent, savedCtx := in.content, in.ctx
	if hasContent {
		in.content = &closure{nodes: content, scope: in.scope, outer: savedContent}
	}
	if ctxExpr != nil {
		in.ctx = in.eval(site, ctxExpr)
	}
	ret, has = in.list(def.Body)
	in.content, in.ctx = savedContent, savedCtx
	return ret, has
}

func (in *Interp) include(n *Node) (interface{}, bool) {
	nv := in.eval(n, n.E)
	name, ok := nv.(string)
	if !ok {
		if s, isS := nv.(fmt.Stringer); isS {
			name = s.String()
		} else {
			in.fail(n, "include-name-kind", "include name is %T", nv)
		}
	}
	f := in.lookupFile(name, n.File)
	if f == nil {
		in.fail(n, "unknown-template", "include of unknown template %s", name)
	}
	if f.Broken {
		in.fail(n, "broken-template", "include of unparsable template %s", name)
	}
	in.push(in.table(f))
	defer in.pop()
	saved := in.ctx
	defer func() { in.ctx = saved }()
	if n.Ctx != nil {
		in.ctx = in.eval(n, n.Ctx)
	}
	return in.list(in.rootOf(f))
}

func (in *Interp) try(n *Node) (ret interface{}, has bool) {
	savedScope, savedCtx, savedContent := in.scope, in.ctx, in.content
	savedDepth, nw := in.depth, len(in.writers)
	buf := &bytes.Buffer{}
	in.writers = append(in.writers, buf)
	var failure *ModelError
	func() {
		defer func() {
			if r := recover(); r != nil {
				me, ok := r.(*ModelError)
				if !ok {
					panic(r)
				}
				failure = me
			}
		}()
		ret, has = in.list(n.Body)
	}()
	in.writers = in.writers[:nw]
	if failure == nil {
		in.raw(buf.Bytes())
		return
	}
	// all-or-nothing: nothing of the body remains, state as before the statement
	in.scope, in.ctx, in.content, in.depth = savedScope, savedCtx, savedContent, savedDepth
	ret, has = nil, false
	if n.HasCatch {
		if n.Name != "" {
			in.push(nil)
			in.scope.vars[n.Name] = errValue{failure}
			if failure.NilValue {
				in.scope.vars[n.Name] = (*User)(nil) // a nil pointer: bound, and not "set"
			}
			defer in.pop()
		}
		return in.list(n.Catch)
	}
	return
}

// ---- ranging ----

type iter struct {
	indexed bool
	next    func() (k, v interface{}, ok bool)
}

func (in *Interp) iterOf(n *Node, v interface{}) iter {
	if v == nil {
		in.fail(n, "range-kind", "range over nil")
	}
	switch r := v.(type) {
	case *IdxRanger: // custom rangers keep their own cursor: the model drives the very same fixture
		return iter{true, func() (interface{}, interface{}, bool) {
			k, v, end := r.Range()
			if end {
				return nil, nil, false
			}
			return k.Interface(), v.Interface(), true
		}}
	case *PlainRanger:
		return iter{false, func() (interface{}, interface{}, bool) {
			_, v, end := r.Range()
			if end {
				return nil, nil, false
			}
			return nil, v.Interface(), true
		}}
	case *NilOKRanger:
		return iter{false, func() (interface{}, interface{}, bool) {
			_, v, end := r.Range()
			if end {
				return nil, nil, false
			}
			return nil, v.Interface(), true
		}}
	case *StackRanger:
		return iter{false, func() (interface{}, interface{}, bool) {
			_, v, end := r.Range()
			if end {
				return nil, nil, false
			}
			return nil, v.Interface(), true
		}}
	case *intsRange:
		// a cursor, like a channel or a custom Ranger: what has been handed out is gone, also for a second range
		return iter{true, func() (interface{}, interface{}, bool) {
			if r.from+r.done >= r.to {
				return nil, nil, false
			}
			r.done++
			return r.done - 1, r.from + r.done - 1, true
		}}
	}
	rv := reflect.ValueOf(v)
	for rv.Kind() == reflect.Ptr || rv.Kind() == reflect.Interface {
		if rv.IsNil() {
			in.fail(n, "range-kind", "range over nil pointer")
		}
		rv = rv.Elem()
	}
	switch rv.Kind() {
	case reflect.Slice, reflect.Array:
		i := 0
		return iter{true, func() (interface{}, interface{}, bool) {
			if i >= rv.Len() {
				return nil, nil, false
			}
			i++
			return i - 1, rv.Index(i - 1).Interface(), true
		}}
	case reflect.Map:
		// entries, not keys looked up again: a key that is not equal to itself (NaN) has a value all the same
		type entry struct{ k, v interface{} }
		var entries []entry
		for it := rv.MapRange(); it.Next(); {
			entries = append(entries, entry{it.Key().Interface(), it.Value().Interface()})
		}
		sort.SliceStable(entries, func(a, b int) bool { return fmt.Sprint(entries[a].k) < fmt.Sprint(entries[b].k) })
		i := 0
		return iter{true, func() (interface{}, interface{}, bool) {
			if i >= len(entries) {
				return nil, nil, false
			}
			i++
			return entries[i-1].k, entries[i-1].v, true
		}}
	case reflect.Chan:
		return iter{false, func() (interface{}, interface{}, bool) {
			x, ok := rv.Recv()
			if !ok {
				return nil, nil, false
			}
			return nil, x.Interface(), true
		}}
	}
	in.fail(n, "range-kind", "range over %T", v)
	return iter{}
}

func (in *Interp) rangeStmt(n *Node) (ret interface{}, has bool) {
	subject := in.eval(n, n.E)
	if len(n.Names) > 0 && n.Decl {
		in.push(nil)
		defer in.pop()
	}
	it := in.iterOf(n, subject)
	if !it.indexed && len(n.Names) > 1 {
		in.fail(n, "range-two-vars-no-index", "two-variable range over a ranger without index")
	}
	saved := in.ctx
	defer func() { in.ctx = saved }()
	count := 0
	for {
		k, v, ok := it.next()
		if !ok {
			break
		}
		count++
		valueBound := false
		switch len(n.Names) {
		case 1:
			if it.indexed {
				in.bind(n, n, n.Names[0], k)
			} else {
				in.bind(n, n, n.Names[0], v)
				valueBound = true
			}
		case 2:
			in.bind(n, n, n.Names[0], k)
			in.bind(n, n, n.Names[1], v)
			valueBound = true
		}
		if !valueBound {
			in.ctx = v
		}
		if r, h := in.list(n.Body); h {
			ret, has = r, true
			break
		}
	}
	in.ctx = saved
	if count == 0 && n.HasElse {
		return in.list(n.Else)
	}
	return
}

// ---- values ----

func isNilValue(v interface{}) bool {
	if v == nil {
		return true
	}
	rv := reflect.ValueOf(v)
	switch rv.Kind() {
	case reflect.Chan, reflect.Func, reflect.Interface, reflect.Map, reflect.Ptr, reflect.Slice:
		return rv.IsNil()
	}
	return false
}

// Truthy: anything but false, 0, the empty string and nil.
func Truthy(v interface{}) bool {
	if v == nil {
		return false
	}
	switch x := v.(type) {
	case hidden:
		return x.b
	case bool:
		return x
	case string:
		return x != ""
	case errValue, fnValue:
		return true
	case ZeroErr:
		// (only ever met in a slot of an interface type that has methods: what counts is that the slot is not empty)
		return true
	}
	rv := reflect.ValueOf(v)
	switch rv.Kind() {
	case reflect.Int, reflect.Int8, reflect.Int16, reflect.Int32, reflect.Int64:
		return rv.Int() != 0
	case reflect.Uint, reflect.Uint8, reflect.Uint16, reflect.Uint32, reflect.Uint64:
		return rv.Uint() != 0
	case reflect.Float32, reflect.Float64:
		return rv.Float() != 0
	case reflect.String:
		return rv.String() != ""
	case reflect.Bool:
		return rv.Bool()
	case reflect.Chan, reflect.Func, reflect.Interface, reflect.Map, reflect.Ptr, reflect.Slice:
		return !rv.IsNil()
	}
	return !rv.IsZero()
}

func num(v interface{}) (f float64, isInt bool, ok bool) {
	rv := reflect.ValueOf(v)
	switch rv.Kind() {
	case reflect.Int, reflect.Int8, reflect.Int16, reflect.Int32, reflect.Int64:
		return float64(rv.Int()), true, true
	case reflect.Uint, reflect.Uint8, reflect.Uint16, reflect.Uint32, reflect.Uint64:
		return float64(rv.Uint()), true, true
	case reflect.Float32, reflect.Float64:
		return rv.Float(), false, true
	}
	return 0, false, false
}

func equal(a, b interface{}) bool {
	if isNilValue(a) || isNilValue(b) {
		return isNilValue(a) && isNilValue(b)
	}
	if x, _, ok := num(a); ok {
		if y, _, ok2 := num(b); ok2 {
			return x == y
		}
		return false
	}
	return reflect.DeepEqual(a, b)
}

type intsRange struct{ from, to, done int64 }

func (in *Interp) lookupVar(name string) (interface{}, bool) {
	for fr := in.scope; fr != nil; fr = fr.parent {
		if v, ok := fr.vars[name]; ok {
			return v, true
		}
	}
	if v, ok := in.globals[name]; ok {
		return v, true
	}
	if _, ok := builtinNames[name]; ok {
		return fnValue{name}, true
	}
	if _, ok := in.Funcs[name]; ok {
		return fnValue{name}, true
	}
	return nil, false
}

var builtinNames = map[string]bool{"lower": true, "upper": true, "hasPrefix": true, "hasSuffix": true, "repeat": true, "replace": true, "split": true, "trimSpace": true, "html": true, "url": true, "safeHtml": true, "safeJs": true, "raw": true, "unsafe": true, "writeJson": true, "json": true, "map": true, "slice": true, "array": true, "isset": true, "len": true, "includeIfExists": true, "exec": true, "ints": true, "dump": true, "addGlobalNow": true, "rtWrite": true, "given": true}

// member: a.name — struct field (exported), map entry, or method without arguments.
func (in *Interp) member(at *Node, v interface{}, name string) (interface{}, bool) {
	if v == nil {
		in.fail(at, "unknown-field", "field %s of nil", name)
	}
	rv := reflect.ValueOf(v)
	for rv.Kind() == reflect.Ptr || rv.Kind() == reflect.Interface {
		if rv.IsNil() {
			in.fail(at, "nil-deref", "field %s of nil pointer", name)
		}
		rv = rv.Elem()
	}
	switch rv.Kind() {
	case reflect.Struct:
		sf, ok := rv.Type().FieldByName(name)
		if !ok || sf.PkgPath != "" {
			in.fail(at, "unknown-field", "no field %s in %s", name, rv.Type())
		}
		return rv.FieldByIndex(sf.Index).Interface(), true
	case reflect.Map:
		if rv.Type().Key().Kind() != reflect.String {
			in.fail(at, "unknown-field", "map key kind")
		}
		e := rv.MapIndex(reflect.ValueOf(name).Convert(rv.Type().Key()))
		if !e.IsValid() {
			return nil, false
		}
		return e.Interface(), true
	}
	in.fail(at, "unknown-field", "no field %s in %T", name, v)
	return nil, false
}

func (in *Interp) indexLookup(at *Node, base, idx interface{}) (interface{}, bool) {
	if base == nil {
		in.fail(at, "index-kind", "index of nil")
	}
	rv := reflect.ValueOf(base)
	for rv.Kind() == reflect.Ptr || rv.Kind() == reflect.Interface {
		if rv.IsNil() {
			in.fail(at, "nil-deref", "index of nil pointer")
		}
		rv = rv.Elem()
	}
	switch rv.Kind() {
	case reflect.Slice, reflect.Array, reflect.String:
		f, _, ok := num(idx)
		if !ok {
			in.fail(at, "index-kind", "index %T", idx)
		}
		i := int(f)
		if i < 0 || i >= rv.Len() {
			in.fail(at, "index-range", "index %d out of range", i)
		}
		return rv.Index(i).Interface(), true
	case reflect.Map:
		if idx == nil {
			in.fail(at, "index-kind", "nil map key")
		}
		kv := reflect.ValueOf(idx)
		if !kv.Type().ConvertibleTo(rv.Type().Key()) {
			in.fail(at, "index-kind", "map key %T", idx)
		}
		if f, isInt, ok := num(idx); ok && !isInt && rv.Type().Key().Kind() != reflect.Float64 {
			kv = reflect.ValueOf(int(f)) // numeric literals are floats
		}
		e := rv.MapIndex(kv.Convert(rv.Type().Key()))
		if !e.IsValid() {
			return nil, false
		}
		return e.Interface(), true
	}
	in.fail(at, "index-kind", "index into %T", base)
	return nil, false
}

func (in *Interp) eval(at *Node, e *Expr) interface{} {
	in.tick()
	switch e.K {
	case "str":
		return e.S
	case "num":
		return e.N
	case "bool":
		return e.B
	case "nil":
		return nil
	case "paren":
		return in.eval(at, e.A)
	case "var":
		v, ok := in.lookupVar(e.Name)
		if !ok {
			in.fail(at, "unknown-identifier", "unknown identifier %s", e.Name)
		}
		return v
	case "dot":
		return in.ctx
	case "field":
		v := in.ctx
		for i, f := range e.Fields {
			var ok bool
			v, ok = in.member(at, v, f)
			if !ok && i < len(e.Fields)-1 { // (an absent key in last position is nil, as for x.a.absent)
				in.fail(at, "unknown-field", "no entry %s", f)
			}
		}
		return v
	case "chain":
		v := in.eval(at, e.A)
		for i, f := range e.Fields {
			var ok bool
			v, ok = in.member(at, v, f)
			if !ok && i < len(e.Fields)-1 {
				in.fail(at, "unknown-field", "no entry %s", f)
			}
		}
		return v
	case "index":
		v, _ := in.indexLookup(at, in.eval(at, e.A), in.eval(at, e.B2))
		return v
	case "not":
		return !Truthy(in.eval(at, e.A))
	case "neg":
		f, isInt, ok := num(in.eval(at, e.A))
		if !ok {
			in.fail(at, "operand-kind", "negation of a non-number")
		}
		if isInt {
			return int64(-f)
		}
		return -f
	case "tern":
		if Truthy(in.eval(at, e.A)) {
			return in.eval(at, e.B2)
		}
		return in.eval(at, e.C)
	case "bin":
		return in.binary(at, e)
	case "call":
		return in.call(at, e.Name, e.Args, nil, false)
	case "pipe":
		v, written := in.evalTop(at, e)
		if written {
			panic(OutOfModel{"safe writer below action level"})
		}
		return v
	}
	panic("mj model: unknown expr kind " + e.K)
}

func (in *Interp) binary(at *Node, e *Expr) interface{} {
	switch e.Name {
	case "&&":
		return Truthy(in.eval(at, e.A)) && Truthy(in.eval(at, e.B2))
	case "||":
		return Truthy(in.eval(at, e.A)) || Truthy(in.eval(at, e.B2))
	}
	a, b := in.eval(at, e.A), in.eval(at, e.B2)
	switch e.Name {
	case "==":
		return equal(a, b)
	case "!=":
		return !equal(a, b)
	}
	if s, ok := a.(string); ok && e.Name == "+" {
		if b == nil {
			in.fail(at, "operand-kind", "string + nil")
		}
		if f, isF := b.(float64); isF {
			return s + fmt.Sprint(f)
		}
		return s + string(PrintValue(b))
	}
	x, xi, ok1 := num(a)
	y, yi, ok2 := num(b)
	if !ok1 || !ok2 {
		in.fail(at, "operand-kind", "%T %s %T", a, e.Name, b)
	}
	switch e.Name {
	case "<":
		return x < y
	case "<=":
		return x <= y
	case ">":
		return x > y
	case ">=":
		return x >= y
	}
	if xi && yi {
		i, j := int64(x), int64(y)
		switch e.Name {
		case "+":
			return i + j
		case "-":
			return i - j
		case "*":
			return i * j
		case "/":
			if j == 0 {
				panic(OutOfModel{"division by zero"})
			}
			return i / j
		case "%":
			if j == 0 {
				panic(OutOfModel{"division by zero"})
			}
			return i % j
		}
	}
	switch e.Name {
	case "+":
		return x + y
	case "-":
		return x - y
	case "*":
		return x * y
	case "/":
		if y == 0 {
			panic(OutOfModel{"division by zero"})
		}
		return x / y
	}
	panic(OutOfModel{"operator " + e.Name + " on floats"})
}

// evalTop evaluates an expression in action position; written reports that a
// SafeWriter already wrote the value.
func (in *Interp) evalTop(at *Node, e *Expr) (v interface{}, written bool) {
	switch e.K {
	case "pipe":
		pv, w := in.evalTop(at, e.A)
		if w {
			in.fail(at, "writer-not-last", "safe writer is not the last command")
		}
		// the name is resolved like any other (scopes, variables, globals, built-ins): what it is bound to decides
		if fv, isFn := in.mustFnQuiet(e.Name); isFn {
			if sw, ok := safeWriter(fv.name); ok {
				in.raw(sw(PrintValue(pv)))
				for _, a := range e.Args {
					in.raw(sw(PrintValue(in.eval(at, a))))
				}
				return nil, true
			}
		}
		return in.call(at, e.Name, e.Args, pv, true), false
	case "call":
		if fv, isFn := in.mustFnQuiet(e.Name); isFn && len(e.Args) > 0 {
			if sw, ok := safeWriter(fv.name); ok {
				for _, a := range e.Args {
					in.raw(sw(PrintValue(in.eval(at, a))))
				}
				return nil, true
			}
		}
	}
	return in.eval(at, e), false
}

// mustFnQuiet: what name is bound to, if that is a function value (no failure for unknown names).
func (in *Interp) mustFnQuiet(name string) (fnValue, bool) {
	v, ok := in.lookupVar(name)
	if !ok {
		return fnValue{}, false
	}
	fv, isFn := v.(fnValue)
	return fv, isFn
}

func (in *Interp) mustFn(at *Node, name string) (fnValue, bool) {
	v, ok := in.lookupVar(name)
	if !ok {
		in.fail(at, "unknown-identifier", "unknown function %s", name)
	}
	fv, isFn := v.(fnValue)
	return fv, isFn
}

func str(at *Node, in *Interp, v interface{}) string {
	s, ok := v.(string)
	if !ok {
		in.fail(at, "argument-kind", "want string, have %T", v)
	}
	return s
}

func (in *Interp) call(at *Node, name string, argExprs []*Expr, piped interface{}, hasPiped bool) interface{} {
	fv, isFn := in.mustFn(at, name)
	if !isFn {
		in.fail(at, "call-non-function", "%s is not a function", name)
	}
	name = fv.name
	// isset inspects its argument expressions instead of their values
	if name == "isset" {
		if hasPiped && isNilValue(piped) {
			return false
		}
		for _, a := range argExprs {
			if !in.isSet(at, a) {
				return false
			}
		}
		return true
	}
	// given(x): a Go function that asks Arguments.IsSet(0) - the question isset(x) asks, through the other door
	if name == "given" && !hasPiped && len(argExprs) == 1 {
		return in.isSet(at, argExprs[0])
	}
	var args []interface{}
	if hasPiped {
		args = append(args, piped)
	}
	// exec / includeIfExists look the template up first: the context argument is only evaluated for a template
	// that is there (a missing one renders nothing and that is that)
	var lazyCtx *Expr
	for i, a := range argExprs {
		if (name == "exec" || name == "includeIfExists") && len(args) == 1 && i == len(argExprs)-1 {
			lazyCtx = a
			args = append(args, nil)
			continue
		}
		args = append(args, in.eval(at, a))
	}
	need := func(n int) {
		if len(args) != n {
			in.fail(at, "argument-count", "%s wants %d arguments, has %d", name, n, len(args))
		}
	}
	if f, ok := in.Funcs[name]; ok {
		return f(in, args)
	}
	if name == "rtWrite" {
		for _, a := range args {
			in.raw(in.escapeWritten([]byte(str(at, in, a))))
		}
		return nil
	}
	if name == "addGlobalNow" {
		need(2)
		in.globals[str(at, in, args[0])] = args[1]
		return nil
	}
	if strings.HasPrefix(name, "ifunc:") {
		// a variable holding a Go function that returns interface{}: the value inside is the result
		need(0)
		k, _ := strconv.Atoi(name[len("ifunc:"):])
		return IfuncVals[k]
	}
	switch name {
	case "upper":
		need(1)
		return strings.ToUpper(str(at, in, args[0]))
	case "lower":
		need(1)
		return strings.ToLower(str(at, in, args[0]))
	case "trimSpace":
		need(1)
		return strings.TrimSpace(str(at, in, args[0]))
	case "html": // html.EscapeString: the five specials, NUL untouched
		need(1)
		return strings.NewReplacer("&", "&amp;", "'", "&#39;", "<", "&lt;", ">", "&gt;", "\"", "&#34;").Replace(str(at, in, args[0]))
	case "len":
		need(1)
		rv := reflect.ValueOf(args[0])
		for rv.IsValid() && (rv.Kind() == reflect.Ptr || rv.Kind() == reflect.Interface) {
			rv = rv.Elem()
		}
		switch rv.Kind() {
		case reflect.Array, reflect.Chan, reflect.Slice, reflect.Map, reflect.String:
			return rv.Len()
		case reflect.Struct:
			return rv.NumField() // (documented: the number of fields)
		}
		in.fail(at, "argument-kind", "len of %T", args[0])
	case "ints":
		need(2)
		a, _, ok1 := num(args[0])
		b, _, ok2 := num(args[1])
		if !ok1 || !ok2 || b <= a {
			in.fail(at, "argument-kind", "ints(%v, %v)", args[0], args[1])
		}
		return &intsRange{from: int64(a), to: int64(b)}
	case "slice", "array":
		return append([]interface{}{}, args...)
	case "map":
		if len(args)%2 != 0 {
			in.fail(at, "argument-count", "map with odd argument count")
		}
		m := map[string]interface{}{}
		for i := 0; i < len(args); i += 2 {
			m[str(at, in, args[i])] = args[i+1]
		}
		return m
	case "exec", "includeIfExists":
		if len(args) < 1 || len(args) > 2 {
			in.fail(at, "argument-count", "%s argument count", name)
		}
		f := in.lookupFile(str(at, in, args[0]), "/")
		if f == nil {
			if name == "includeIfExists" {
				return hidden{false}
			}
			in.fail(at, "unknown-template", "exec of unknown template")
		}
		if f.Broken {
			in.fail(at, "broken-template", "%s of an unparsable template", name)
		}
		in.push(in.table(f))
		defer in.pop()
		saved := in.ctx
		defer func() { in.ctx = saved }()
		if len(args) == 2 {
			if lazyCtx != nil {
				args[1] = in.eval(at, lazyCtx)
			}
			in.ctx = args[1]
		}
		if name == "exec" {
			in.writers = append(in.writers, nil)
			defer func() { in.writers = in.writers[:len(in.writers)-1] }()
			r, _ := in.list(in.rootOf(f))
			return r
		}
		if r, h := in.list(in.rootOf(f)); h {
			// includeIfExists behaves like include for a template that is there: a return executed in it is a return
			// executed by whoever runs the including template (handed on by the statement the call stands in)
			in.iieRet = &iieReturn{r}
		}
		return hidden{true}
	}
	panic(OutOfModel{"function " + name + " is not modelled"})
}

// isSet: the argument resolves to an existing, non-nil value.
func (in *Interp) isSet(at *Node, e *Expr) (ok bool) {
	// a failure while looking is an answer ("no"), and like try it leaves no other trace: what a template
	// executed for the answer had rebound when it failed is as before
	savedScope, savedCtx, savedContent, savedDepth, nw := in.scope, in.ctx, in.content, in.depth, len(in.writers)
	defer func() {
		if r := recover(); r != nil {
			if _, isME := r.(*ModelError); isME {
				ok = false
				in.scope, in.ctx, in.content, in.depth, in.writers = savedScope, savedCtx, savedContent, savedDepth, in.writers[:nw]
				return
			}
			panic(r)
		}
	}()
	switch e.K {
	case "var":
		v, found := in.lookupVar(e.Name)
		return found && !isNilValue(v)
	case "field":
		v := in.ctx
		for _, f := range e.Fields {
			var present bool
			v, present = in.member(at, v, f)
			if !present || isNilValue(v) {
				return false
			}
		}
		return true
	case "chain":
		v := in.eval(at, e.A)
		for _, f := range e.Fields {
			var present bool
			v, present = in.member(at, v, f)
			if !present {
				return false
			}
		}
		return !isNilValue(v)
	case "index":
		if !in.isSet(at, e.A) || !in.isSet(at, e.B2) {
			return false
		}
		v, present := in.indexLookup(at, in.eval(at, e.A), in.eval(at, e.B2))
		return present && !isNilValue(v)
	}
	return true // other expression kinds count as set (documented argument kinds are the four above)
}

// Log records a probe call (used by functions registered through Funcs).
func (in *Interp) Log(s string) { in.calls = append(in.calls, s) }

// ---- Runtime API mirror (used by C18: functions registered through Funcs act on the call site's scopes) ----

// APILet declares in the innermost open scope, as := does.
func (in *Interp) APILet(name string, v interface{}) { in.scope.vars[name] = v }

// APISet rebinds like = ; false if the variable is undeclared.
func (in *Interp) APISet(name string, v interface{}) bool {
	for fr := in.scope; fr != nil; fr = fr.parent {
		if _, ok := fr.vars[name]; ok {
			fr.vars[name] = v
			return true
		}
	}
	return false
}

// APILetGlobal binds in the outermost template scope (the variables passed to Execute).
func (in *Interp) APILetGlobal(name string, v interface{}) {
	fr := in.scope
	for fr.parent != nil {
		fr = fr.parent
	}
	fr.vars[name] = v
}

// APIResolve is identifier lookup.
func (in *Interp) APIResolve(name string) (interface{}, bool) { return in.lookupVar(name) }

// Ctx is '.'.
func (in *Interp) Ctx() interface{} { return in.ctx }

// APIYield renders block name once, like {{yield name() ctx}}; false if there is no such block.
func (in *Interp) APIYield(name string, ctx interface{}, withCtx bool) bool {
	def := in.findBlock(name)
	if def == nil {
		return false
	}
	saved := in.ctx
	if withCtx {
		in.ctx = ctx
	}
	if len(def.node.Params) > 0 {
		// no arguments: every parameter has its default value
		in.push(nil)
		defer in.pop()
		for _, p := range def.node.Params {
			if p.E == nil {
				in.scope.vars[p.Name] = false
			} else {
				in.scope.vars[p.Name] = in.eval(def.node, p.E)
			}
		}
	}
	in.list(def.node.Body)
	in.ctx = saved
	return true
}

// Fail lets a registered function report an error at the current action.
func (in *Interp) Fail(class, msg string) {
	panic(&ModelError{Class: class, Msg: msg})
}
