// Package gensrc generates syntactically valid Jet source covering every
// statement and expression kind of the grammar. The programs are not meant to
// execute meaningfully; they feed the parser (C02, as mutation seeds) and the
// AST visitor (C20).
package gensrc

import (
	"fmt"
	"strings"

	"pgregory.net/rapid"
)

type G struct {
	T        *rapid.T
	L, R     string // action delimiters
	CL, CR   string // comment delimiters
	MaxDepth int
	Strays   bool           // also emit {{else}} / {{content}} / {{catch}} where they do not belong (C20: parser must reject them or Walk must cope)
	Kinds    map[string]int // node kinds produced (for labels)
	blockN   int
}

func New(t *rapid.T, l, r, cl, cr string) *G {
	return &G{T: t, L: l, R: r, CL: cl, CR: cr, MaxDepth: 3, Kinds: map[string]int{}}
}

func (g *G) n(lo, hi int, label string) int { return rapid.IntRange(lo, hi).Draw(g.T, label) }
func (g *G) pick(label string, xs ...string) string {
	return xs[rapid.IntRange(0, len(xs)-1).Draw(g.T, label)]
}
func (g *G) kind(k string) { g.Kinds[k]++ }

func (g *G) act(inner string) string {
	l, r := g.L, g.R
	switch g.n(0, 7, "trimstyle") {
	case 0:
		l += "- "
	case 1:
		r = " -" + r
	case 2:
		l += " "
		r = " " + r
	}
	return l + inner + r
}

var idents = []string{"a", "b", "x", "user", "items", "_p", "v1", "ok", "fn", "upper", "len", "isset", "m"}
var fields = []string{".", ".Name", ".A.B", ".Items", ".x"}

func (g *G) ident() string { return idents[g.n(0, len(idents)-1, "ident")] }

// Program returns a whole template body (no extends/import header).
func (g *G) Program() string {
	return g.list(0, g.n(1, 5, "nstmts"))
}

func (g *G) list(depth, n int) string {
	var b strings.Builder
	for i := 0; i < n; i++ {
		b.WriteString(g.stmt(depth))
	}
	return b.String()
}

func (g *G) text() string {
	g.kind("text")
	s := g.pick("text", "hello ", "\n", " <b>x</b> ", "é日", "a\n\nb", "  ", "} {", "*", "-")
	// never form a left delimiter by accident: drop every byte that occurs in an opener
	return strings.Map(func(r rune) rune {
		if strings.ContainsRune(g.L+g.CL, r) {
			return -1
		}
		return r
	}, s)
}

func (g *G) stmt(depth int) string {
	if g.Strays && g.n(0, 40, "stray") == 0 {
		g.kind("stray-pseudo-node")
		switch g.n(0, 3, "straykind") {
		case 0:
			return g.act("else")
		case 1:
			return g.act("content")
		case 2:
			return g.act("catch") + g.text() + g.act("end")
		default:
			return g.act("catch "+g.ident()) + g.act("end")
		}
	}
	max := 13
	if depth >= g.MaxDepth {
		max = 4
	}
	switch g.n(0, max, "stmt") {
	case 0:
		return g.text()
	case 1:
		g.kind("comment")
		return g.CL + g.pick("comment", "", " note ", "\nmulti\nline\n", " "+g.L+" x "+g.R+" ") + g.CR
	case 2:
		g.kind("action")
		return g.act(g.pipeline(depth))
	case 3:
		return g.assign(depth)
	case 4:
		g.kind("return")
		return g.act("return " + g.expr(depth+1))
	case 5:
		g.kind("if")
		s := g.act("if " + g.ifHeader(depth))
		s += g.list(depth+1, g.n(0, 2, "ifn"))
		for k := g.n(0, 2, "elifs"); k > 0; k-- {
			g.kind("elseif")
			s += g.act("else if "+g.expr(depth+1)) + g.list(depth+1, g.n(0, 2, "elifn"))
		}
		if g.n(0, 1, "else") == 1 {
			g.kind("else")
			s += g.act("else") + g.list(depth+1, g.n(0, 2, "elsen"))
		}
		return s + g.act("end")
	case 6:
		g.kind("range")
		var h string
		switch g.n(0, 4, "rangeform") {
		case 0:
			h = g.expr(depth + 1)
		case 1:
			h = g.ident() + " := " + g.expr(depth+1)
		case 2:
			h = g.ident() + ", " + g.ident() + " := " + g.expr(depth+1)
		case 3:
			h = g.ident() + ", " + g.ident() + " = " + g.expr(depth+1)
		default:
			h = "_, " + g.ident() + " := " + g.expr(depth+1)
		}
		s := g.act("range "+h) + g.list(depth+1, g.n(0, 2, "rangen"))
		if g.n(0, 2, "rangeelse") == 0 {
			g.kind("range-else")
			s += g.act("else") + g.list(depth+1, g.n(0, 2, "relsen"))
		}
		return s + g.act("end")
	case 7:
		g.kind("try")
		s := g.act("try") + g.list(depth+1, g.n(0, 2, "tryn"))
		switch g.n(0, 2, "catch") {
		case 0:
			g.kind("catch")
			s += g.act("catch") + g.list(depth+1, g.n(0, 2, "catchn"))
		case 1:
			g.kind("catch-var")
			s += g.act("catch "+g.ident()) + g.list(depth+1, g.n(0, 2, "catchn"))
		}
		return s + g.act("end")
	case 8:
		g.kind("block")
		g.blockN++
		name := fmt.Sprintf("blk%d", g.n(0, 3, "blockname"))
		s := g.act("block "+name+"("+g.params(depth, true)+")"+g.optCtx(depth)) + g.list(depth+1, g.n(0, 2, "blockn"))
		if g.n(0, 2, "blockcontent") == 0 {
			g.kind("block-content")
			s += g.act("content") + g.list(depth+1, g.n(0, 2, "bcn"))
		}
		return s + g.act("end")
	case 9:
		g.kind("yield")
		name := fmt.Sprintf("blk%d", g.n(0, 3, "blockname"))
		h := "yield " + name + "(" + g.params(depth, false) + ")" + g.optCtx(depth)
		if g.n(0, 2, "ycontent") == 0 {
			g.kind("yield-with-content")
			return g.act(h+" content") + g.list(depth+1, g.n(0, 2, "ycn")) + g.act("end")
		}
		return g.act(h)
	case 10:
		g.kind("yield-content")
		return g.act("yield content" + g.optCtx(depth))
	case 11:
		g.kind("include")
		name := g.pick("incname", `"inc.jet"`, `"./sub/x"`, "name", `"/d/" + n`, ".Tpl")
		return g.act("include " + name + g.optCtx(depth))
	case 12:
		g.kind("action-multi")
		return g.act(g.ident() + " = " + g.expr(depth+1) + "; " + g.pipeline(depth))
	default:
		g.kind("action")
		return g.act(g.expr(depth + 1))
	}
}

func (g *G) optCtx(depth int) string {
	if g.n(0, 2, "ctx") == 0 {
		g.kind("context-arg")
		return " " + g.expr(depth+2)
	}
	return ""
}

func (g *G) ifHeader(depth int) string {
	if g.n(0, 3, "iflet") == 0 {
		g.kind("if-let")
		return g.ident() + " := " + g.expr(depth+1) + "; " + g.expr(depth+1)
	}
	return g.expr(depth + 1)
}

func (g *G) params(depth int, declaring bool) string {
	n := g.n(0, 3, "nparams")
	var ps []string
	for i := 0; i < n; i++ {
		name := fmt.Sprintf("p%d", i)
		switch g.n(0, 2, "paramform") {
		case 0:
			ps = append(ps, name)
		default:
			ps = append(ps, name+"="+g.expr(depth+2))
		}
	}
	if !declaring && n > 0 && g.n(0, 3, "posarg") == 0 {
		ps = append(ps, g.expr(depth+2))
	}
	return strings.Join(ps, g.pick("comma", ",", ", "))
}

func (g *G) assign(depth int) string {
	switch g.n(0, 6, "assignform") {
	case 0:
		g.kind("let")
		return g.act(g.ident() + " := " + g.expr(depth+1))
	case 1:
		g.kind("set")
		return g.act(g.ident() + " = " + g.expr(depth+1))
	case 2:
		g.kind("let-multi")
		if g.n(0, 3, "wideAssign") == 0 {
			// 3-9 targets and as many values
			k := g.n(3, 9, "assignWidth")
			var l, r []string
			for i := 0; i < k; i++ {
				l = append(l, g.ident())
				r = append(r, g.operand(depth+2))
			}
			g.kind("let-multi-wide")
			return g.act(strings.Join(l, ", ") + g.pick("wideop", " := ", " = ") + strings.Join(r, ", "))
		}
		return g.act(g.ident() + ", " + g.ident() + " := " + g.expr(depth+1) + ", " + g.expr(depth+1))
	case 3:
		g.kind("let-lookup")
		return g.act(g.ident() + ", " + g.ident() + " := " + g.ident() + "[" + g.expr(depth+2) + "]")
	case 4:
		g.kind("set-field")
		return g.act(g.pick("setfield", ".Name", "a.b", ".A.B") + " = " + g.expr(depth+1))
	case 5:
		g.kind("discard")
		return g.act("_ = " + g.expr(depth+1))
	default:
		g.kind("discard-lookup")
		return g.act("_, " + g.ident() + " = " + g.ident() + "[" + g.expr(depth+2) + "]")
	}
}

func (g *G) pipeline(depth int) string {
	s := g.expr(depth + 1)
	if g.n(0, 3, "prefixcall") == 0 {
		g.kind("prefix-call")
		s = g.ident() + ": " + g.args(depth+1, false)
		if strings.HasSuffix(s, ": ") {
			s = g.ident() + ": " + g.expr(depth+2)
		}
	}
	for k := g.n(0, 2, "npipes"); k > 0; k-- {
		g.kind("pipe")
		tgt := g.ident()
		if g.n(0, 3, "pipefield") == 0 {
			tgt = g.pick("pfield", ".Name", ".F")
		}
		switch g.n(0, 3, "pipeform") {
		case 0:
			s += " | " + tgt
		case 1:
			s += "|" + tgt + ": " + g.expr(depth+2)
		case 2:
			s += " | " + tgt + "(" + g.args(depth+1, true) + ")"
		default:
			s += " | " + tgt + ": " + g.expr(depth+2) + ", " + g.expr(depth+2)
		}
	}
	return s
}

func (g *G) args(depth int, slot bool) string {
	n := g.n(0, 3, "nargs")
	var as []string
	used := false
	for i := 0; i < n; i++ {
		if slot && !used && g.n(0, 2, "slot") == 0 {
			g.kind("underscore-slot")
			as = append(as, "_")
			used = true
			continue
		}
		as = append(as, g.expr(depth+1))
	}
	return strings.Join(as, ", ")
}

func (g *G) literal() string {
	switch g.n(0, 8, "lit") {
	case 0:
		g.kind("number")
		return g.pick("num", "0", "1", "42", "3.5", "0x1F", "1e3", "-7", "+2", ".5")
	case 1:
		g.kind("string")
		return g.pick("str", `"s"`, `""`, `"a\"b\n"`, "`raw\\n`", `"<b>"`, `"é日"`)
	case 2:
		g.kind("bool")
		return g.pick("bool", "true", "false")
	case 3:
		g.kind("nil")
		return "nil"
	case 4:
		g.kind("char")
		return g.pick("char", `'a'`, `'\n'`, `'é'`, `'\''`)
	case 5:
		g.kind("field")
		return fields[g.n(0, len(fields)-1, "field")]
	default:
		g.kind("identifier")
		return g.ident()
	}
}

func (g *G) sp() string { return g.pick("sp", " ", " ", "") }

// operand: a term with optional postfix chain (fields, calls, indexes, slices).
func (g *G) operand(depth int) string {
	var s string
	postfixable := true
	switch g.n(0, 9, "operand") {
	case 0, 1, 2:
		s = g.literal()
		postfixable = (s[0] == '.' && (len(s) == 1 || s[1] < '0' || s[1] > '9')) || isIdent(s)
	case 3:
		if depth < g.MaxDepth+2 {
			g.kind("paren")
			s = "(" + g.expr(depth+1) + ")"
		} else {
			s = g.ident()
		}
		postfixable = false
	default:
		s = g.ident()
	}
	if !postfixable || depth > g.MaxDepth+3 {
		return s
	}
	for k := g.n(0, 2, "npostfix"); k > 0; k-- {
		switch g.n(0, 6, "postfix") {
		case 0:
			g.kind("chain")
			if s == "." {
				s = ".Name"
			} else {
				s += g.pick("chainf", ".Name", ".a.b", ".F")
			}
		case 1:
			g.kind("call")
			if s == "." {
				s = ".Method"
			}
			s += "(" + g.args(depth+1, false) + ")"
		case 2:
			g.kind("index")
			if s == "." {
				s = ".Items"
			}
			s += "[" + g.expr(depth+2) + "]"
		case 3:
			g.kind("slice")
			if s == "." {
				s = ".Items"
			}
			switch g.n(0, 3, "sliceform") {
			case 0:
				g.kind("slice-open-both")
				s += "[:]"
			case 1:
				g.kind("slice-open-low")
				s += "[:" + g.expr(depth+2) + "]"
			case 2:
				g.kind("slice-open-high")
				s += "[" + g.expr(depth+2) + ":]"
			default:
				s += "[" + g.expr(depth+2) + ":" + g.expr(depth+2) + "]"
			}
			return s // nothing may follow a slice expression
		default:
			return s
		}
	}
	return s
}

func isIdent(s string) bool {
	if s == "true" || s == "false" || s == "nil" {
		return false
	}
	c := s[0]
	return c == '_' || (c >= 'a' && c <= 'z') || (c >= 'A' && c <= 'Z')
}

func (g *G) expr(depth int) string {
	if depth > g.MaxDepth+2 {
		return g.operand(depth)
	}
	switch g.n(0, 13, "expr") {
	case 0:
		g.kind("additive")
		return g.operand(depth) + " " + g.pick("addop", "+", "-") + " " + g.expr(depth+1)
	case 1:
		g.kind("multiplicative")
		return g.operand(depth) + g.pick("mulop", " * ", " / ", " % ", "*") + g.operand(depth)
	case 2:
		g.kind("numeric-comparative")
		return g.operand(depth) + g.pick("cmpop", " < ", " <= ", " > ", " >= ") + g.operand(depth)
	case 3:
		g.kind("comparative")
		return g.operand(depth) + g.pick("eqop", " == ", " != ") + g.operand(depth)
	case 4:
		g.kind("logical")
		return g.operand(depth) + g.pick("logop", " && ", " || ", " and ", " or ") + g.expr(depth+1)
	case 5:
		g.kind("not")
		return g.pick("notop", "!", "not ") + g.operand(depth)
	case 6:
		g.kind("ternary")
		return g.operand(depth) + " ? " + g.expr(depth+1) + " : " + g.expr(depth+1)
	case 7:
		g.kind("unary-minus")
		return g.pick("sign", "-", "+") + g.pick("signed", g.ident(), "("+g.expr(depth+1)+")", ".Name")
	case 8:
		g.kind("isset")
		return "isset(" + g.pick("issetarg", g.ident(), ".Name", g.ident()+"."+"f", g.ident()+`["k"]`) + ")"
	default:
		return g.operand(depth)
	}
}
