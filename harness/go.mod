module jetverif

go 1.23

require (
	github.com/CloudyKit/jet/v6 v6.0.0
	pgregory.net/rapid v1.3.0
)

require github.com/CloudyKit/fastprinter v0.0.0-20200109182630-33d98a066a53 // indirect

replace github.com/CloudyKit/jet/v6 => /repo
